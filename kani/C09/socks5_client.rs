//! C09 — totality of the SOCKS5 reply readers that get through the engine (method selection, authentication status).
//! @encodes socks5_client::SocksReader::read_selection_response
//! @encodes socks5_client::SocksReader::read_authentication_response
//! @assume the transport is a scripted in-memory AsyncRead that is never pending; read_reply and the writers do not finish within the budget and connect_inner cannot be compiled by Kani (see kani/C15), so they are outside the claim
use super::*;
use crate::verif_env::{fmt_format_stub, poll_n, ScriptedIo};

fn selection<const SEG: usize, const LEN: usize>() {
    let script: [u8; 2] = kani::any();
    let mut io = ScriptedIo::<2, 4>::new(script, LEN, SEG);
    let r = {
        let mut fut = io.read_selection_response();
        let r = poll_n(&mut fut, 2);
        std::mem::forget(fut);
        r
    };
    match &r {
        None => assert!(false, "C09.socks.pending: the reader did not complete although the transport is never pending"),
        Some(Ok(m)) => assert!(LEN == 2 && script[0] == 5 && m.to_u8() == script[1], "C09.socks.selection_ok: a truncated or mis-versioned selection reply is accepted"),
        Some(Err(_)) => {}
    }
    kani::cover!(matches!(r, Some(Ok(_))), "C09.cover.socks_selection_ok");
    kani::cover!(matches!(r, Some(Err(_))), "C09.cover.socks_selection_err");
    std::mem::forget(r);
}

/*@gen
{"name": "c09_socks_selection_reply_seg{0}_len{1}", "call": "selection::<{0}, {1}>()", "unwind": 40, "stubs": ["fmt"], "core": true,
 "bound": "method-selection reply: {1} symbolic byte(s) of the 2, delivered in segments of at most {0} byte(s)",
 "desc": "no reply bytes (complete, truncated, any values, any segmentation) make the reader panic, spin or accept a malformed reply",
 "encodes": ["socks5_client::SocksReader::read_selection_response"],
 "quick": "[(2,2),(1,2),(2,1),(2,0)]"}
@*/

// @harness tier=quick core=yes bound="every 0-, 1- and 2-byte authentication status reply"
// @desc the authentication-status reader neither panics nor accepts a truncated / failed status
// @encodes socks5_client::SocksReader::read_authentication_response
#[kani::proof]
#[kani::unwind(40)]
#[kani::stub(alloc::fmt::format, fmt_format_stub)]
fn c09_socks_auth_status_reply_total() {
    let script: [u8; 2] = kani::any();
    let len: usize = if kani::any() { 2 } else if kani::any() { 1 } else { 0 };
    let mut io = ScriptedIo::<2, 4>::new(script, len, 2);
    let r = {
        let mut fut = io.read_authentication_response();
        let r = poll_n(&mut fut, 2);
        std::mem::forget(fut);
        r
    };
    match &r {
        None => assert!(false, "C09.socks.pending: the reader did not complete although the transport is never pending"),
        Some(Ok(())) => assert!(len == 2 && script[0] == 1 && script[1] == 0, "C09.socks.auth_ok: a truncated, mis-versioned or failed authentication status is accepted"),
        Some(Err(_)) => {}
    }
    std::mem::forget(r);
}
