//! C09 — totality of the UDP multiplexer decoder across the Length -> FixedHeader hand-over.
//! @encodes http_udp_codec::Decoder::process_client_length
//! @encodes http_udp_codec::Decoder::process_client_fixed_header
//! @cut K1
//! @include C06/http_udp_codec.rs
//! @assume two consecutive transitions on a 4-byte and a 37-byte chunk with symbolic contents; the remaining transitions are discharged one by one in kani/C06 under the representation invariant this harness shows to be established
use super::*;
use crate::verif_env::{drop_bytes_noop, drop_bytesmut_noop, fmt_format_stub, sym_static};

// @harness tier=thorough core=no bound="every 4-byte length field followed by every 37-byte fixed header"
// @desc no declared length makes the decoder panic or overflow when the fixed header that follows it is processed
// @encodes http_udp_codec::Decoder::decode_chunk_once
#[kani::proof]
#[kani::unwind(40)]
#[kani::stub(<bytes::Bytes as std::ops::Drop>::drop, drop_bytes_noop)]
#[kani::stub(<bytes::BytesMut as std::ops::Drop>::drop, drop_bytesmut_noop)]
#[kani::stub(alloc::fmt::format, fmt_format_stub)]
fn c09_udp_decoder_length_then_header_total() {
    let (_, len) = sym_static::<4>();
    let (_, hdr) = sym_static::<37>();
    let mut d = Decoder::new(log_utils::IdChain::empty());
    let (o1, t1) = d.decode_chunk_once(len);
    assert!(o1.is_none() && t1.is_empty(), "C09.udp.len_step");
    if matches!(d.state, RecvState::FixedHeader) {
        let (o2, t2) = d.decode_chunk_once(hdr);
        assert!(o2.is_none() && t2.is_empty(), "C09.udp.hdr_step");
        kani::cover!(matches!(d.state, RecvState::AppName(_)), "C09.cover.udp_accept");
        kani::cover!(matches!(d.state, RecvState::Dropping(_)), "C09.cover.udp_drop");
        std::mem::forget(t2);
    }
    kani::cover!(matches!(d.state, RecvState::Dropping(_)), "C09.cover.udp_drop_any");
    std::mem::forget(t1);
    std::mem::forget(d);
}
