//! C09 — totality of ICMP / ICMPv6 deserialisation and request matching on arbitrary packets from the raw socket.
//! @encodes icmp_utils::v4::Message::deserialize
//! @encodes icmp_utils::v6::Message::deserialize
//! @encodes icmp_utils::Message::responded_echo_request
//! @encodes icmp_utils::Message::type_id / code / len
//! @assume packet lengths are enumerated as concrete instances; every byte is symbolic; error-message formatting (alloc::fmt::format) is stubbed out
use super::*;
use crate::verif_env::{drop_bytes_noop, fmt_format_stub, sym_static};

fn deser4<const N: usize>() {
    let (raw, pkt) = sym_static::<N>();
    let r = v4::Message::deserialize(pkt);
    if let Ok(m) = r {
        let m: Message = m.into();
        let e = m.responded_echo_request();
        let _ = m.type_id();
        let _ = m.code();
        let _ = m.len();
        kani::cover!(e.is_some(), "C09.cover.icmp4_matched");
        kani::cover!(e.is_none(), "C09.cover.icmp4_unmatched");
        core::mem::forget(e);
        core::mem::forget(m);
    } else {
        kani::cover!(true, "C09.cover.icmp4_rejected");
        core::mem::forget(r);
    }
}

/*@gen
{"name": "c09_icmp4_deserialize_len{0}", "call": "deser4::<{0}>()", "unwind": 4, "stubs": ["bytes", "fmt"], "core": true,
 "bound": "every ICMPv4 packet of exactly {0} bytes",
 "desc": "v4 deserialize + responded_echo_request + accessors never panic, overflow or read outside the packet",
 "encodes": ["icmp_utils::v4::Message::deserialize", "icmp_utils::v4::Message::responded_echo_request", "net_utils::skip_ipv4_header"],
 "quick": "[0, 1, 2, 7, 8, 9, 20, 35, 36, 37, 44]", "thorough": "list(range(0, 49)) + [64, 72]"}
@*/

fn deser6<const N: usize>() {
    let (raw, pkt) = sym_static::<N>();
    let r = v6::Message::deserialize(pkt);
    if let Ok(m) = r {
        let m: Message = m.into();
        let e = m.responded_echo_request();
        let _ = m.type_id();
        let _ = m.code();
        let _ = m.len();
        kani::cover!(e.is_some(), "C09.cover.icmp6_matched");
        kani::cover!(e.is_none(), "C09.cover.icmp6_unmatched");
        core::mem::forget(e);
        core::mem::forget(m);
    } else {
        kani::cover!(true, "C09.cover.icmp6_rejected");
        core::mem::forget(r);
    }
}

/*@gen
{"name": "c09_icmp6_deserialize_len{0}", "call": "deser6::<{0}>()", "unwind": "({0} - 48) // 2 + 4 if {0} > 48 else 4", "stubs": ["bytes", "fmt"], "core": true,
 "bound": "every ICMPv6 packet of exactly {0} bytes",
 "desc": "v6 deserialize + responded_echo_request (IPv6 extension-header walk over the quoted datagram) never panic, overflow or read outside the packet",
 "encodes": ["icmp_utils::v6::Message::deserialize", "icmp_utils::v6::Message::responded_echo_request", "net_utils::skip_ipv6_header"],
 "quick": "[0, 1, 7, 8, 9, 47, 48, 49, 50, 56, 58]", "thorough": "list(range(0, 12)) + list(range(44, 73))"}
@*/
