//! C09 — totality of the IP-header skippers on arbitrary packets (raw ICMP socket input / quoted datagrams).
//! @encodes net_utils::skip_ipv4_header
//! @encodes net_utils::skip_ipv6_header
//! @assume packet lengths are enumerated as concrete instances; every byte is symbolic
use super::*;
use crate::verif_env::{drop_bytes_noop, sym_static};

fn skip4<const N: usize>() {
    let (raw, pkt) = sym_static::<N>();
    let r = skip_ipv4_header(pkt);
    if let Some((proto, rest)) = &r {
        // what is returned is a suffix of the packet that starts after a header of IHL*4 bytes
        let hl = ((raw[0] & 0x0f) as usize) * 4;
        assert!(N >= 20 && hl >= 20 && hl <= N, "C09.skip4.accepts_malformed: a header length outside the packet is accepted");
        assert!(rest.len() == N - hl, "C09.skip4.payload_extent: payload does not start after the header");
        assert!(*proto == raw[9] as libc::c_int, "C09.skip4.proto: protocol is not byte 9");
        kani::cover!(hl > 20, "C09.cover.skip4_options");
    }
    kani::cover!(r.is_none(), "C09.cover.skip4_none");
    kani::cover!(r.is_some(), "C09.cover.skip4_some");
    core::mem::forget(r);
}

/*@gen
{"name": "c09_skip_ipv4_header_len{0}", "call": "skip4::<{0}>()", "unwind": 4, "stubs": ["bytes"], "core": true,
 "bound": "every packet of exactly {0} bytes",
 "desc": "skip_ipv4_header neither panics nor reads outside the packet, and what it returns is the packet after IHL*4 bytes",
 "encodes": ["net_utils::skip_ipv4_header"],
 "quick": "[0, 1, 19, 20, 21, 23, 24, 28, 59, 60]", "thorough": "list(range(0, 65))"}
@*/

fn skip6<const N: usize>() {
    let (raw, pkt) = sym_static::<N>();
    let r = skip_ipv6_header(pkt);
    if let Some((proto, rest)) = &r {
        assert!(N >= 40, "C09.skip6.accepts_short: a packet shorter than the fixed IPv6 header is accepted");
        assert!(rest.len() <= N - 40, "C09.skip6.payload_extent: payload is not inside the packet after the fixed header");
        assert!(*proto != 0 && *proto != 43 && *proto != 60 && *proto != 44, "C09.skip6.unskipped_ext: an extension header is returned as the payload protocol");
    }
    kani::cover!(r.is_none(), "C09.cover.skip6_none");
    kani::cover!(r.is_some(), "C09.cover.skip6_some");
    core::mem::forget(r);
}

/*@gen
{"name": "c09_skip_ipv6_header_len{0}", "call": "skip6::<{0}>()", "unwind": "({0} - 40) // 2 + 3 if {0} > 40 else 3", "stubs": ["bytes"], "core": true,
 "bound": "every packet of exactly {0} bytes (any chain of extension headers that fits)",
 "desc": "skip_ipv6_header neither panics nor reads outside the packet for any extension-header chain, terminates within (len-40)/2+1 iterations, and never returns an extension header as payload",
 "encodes": ["net_utils::skip_ipv6_header"],
 "quick": "[0, 39, 40, 41, 42, 47, 48, 56]", "thorough": "list(range(40, 73)) + [1, 20, 80, 96]"}
@*/
