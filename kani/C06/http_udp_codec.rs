//! C06 — UDP multiplexer wire codec (PROTOCOL.md 6.3 / 6.4): one-step simulation of the incremental decoder, encoder layout.
//! @encodes http_udp_codec::Decoder::decode_chunk_once
//! @encodes http_udp_codec::Decoder::process_client_length
//! @encodes http_udp_codec::Decoder::process_client_fixed_header
//! @encodes http_udp_codec::Decoder::process_client_app_name
//! @encodes http_udp_codec::Decoder::process_client_payload
//! @encodes http_udp_codec::Decoder::buffered_read
//! @encodes http_udp_codec::Decoder::decode_chunk
//! @encodes http_udp_codec::Encoder::encode_packet
//! @encodes net_utils::get_fixed_size_ip
//! @encodes net_utils::put_fixed_size_ip
//! @cut K1
//! @assume representation invariant of the decoder (established by Decoder::new and preserved by every verified transition): in states Length/FixedHeader/AppName(l) the buffer holds fewer bytes than the field being collected (or the field is empty); in Payload(l) it holds fewer than l bytes; state FixedHeader implies total_length >= 37; AppName(l) implies total_length >= 37 + l; Payload(l) implies source/destination are set
//! @assume shapes (bytes already buffered, chunk length) are enumerated as concrete instances; all byte contents, declared lengths and stored fields are symbolic
//! @assume the size threshold for "too large" records is two-sided with slack: a record whose payload exceeds 65507 bytes (IPv4 UDP maximum) must be skipped, one with payload <= 60000 must be accepted, in between no obligation
//! @assume emission timing of a record whose last field is empty (zero-length payload arriving with the end of a chunk) is not constrained: the decoder may report it when the next chunk arrives
use super::*;
use crate::http_datagram_codec::{DecodeResult, Decoder as _, Encoder as _};
use crate::verif_env::{drop_bytes_noop, drop_bytesmut_noop, fmt_format_stub, sym_static};
use std::net::{IpAddr, Ipv4Addr, Ipv6Addr};

const HDR: usize = UDPPKT_IN_FIXED_HEADER_NO_LENGTH_SIZE; // 37

fn mk_decoder(state: RecvState, total_length: usize, pre: &[u8]) -> Decoder {
    let mut d = Decoder::new(log_utils::IdChain::empty());
    d.state = state;
    d.total_length = total_length;
    if !pre.is_empty() {
        d.buffer = BytesMut::with_capacity(pre.len() + 64);
        d.buffer.extend_from_slice(pre);
    }
    d
}

/// byte `i` of the logical stream "bytes already buffered ++ chunk"
fn at(pre: &[u8], chunk: &[u8], i: usize) -> u8 {
    if i < pre.len() {
        pre[i]
    } else {
        chunk[i - pre.len()]
    }
}

macro_rules! check_tail {
    ($tail:expr, $raw:expr, $consumed:expr, $label_len:literal, $label_content:literal) => {{
        let (tail, raw, consumed) = (&$tail, $raw, $consumed);
        assert!(tail.len() == raw.len() - consumed, $label_len);
        let mut j = 0;
        while j < raw.len() - consumed {
            assert!(tail[j] == raw[consumed + j], $label_content);
            j += 1;
        }
    }};
}

fn check_buffered(d: &Decoder, pre: &[u8], raw: &[u8]) {
    assert!(d.buffer.len() == pre.len() + raw.len(), "C06.step.buffered_len: bytes of an incomplete field are lost or duplicated");
    let mut i = 0;
    while i < pre.len() + raw.len() {
        assert!(d.buffer[i] == at(pre, raw, i), "C06.step.buffered_content: buffered bytes altered or reordered");
        i += 1;
    }
}

// ---------------------------------------------------------------------------------------------
// Length field (4 bytes, big-endian, excludes itself)
// ---------------------------------------------------------------------------------------------
fn step_length<const F: usize, const N: usize>() {
    let pre: [u8; F] = kani::any();
    let (raw, chunk) = sym_static::<N>();
    let mut d = mk_decoder(RecvState::Length, kani::any(), &pre);
    let (out, tail) = d.decode_chunk_once(chunk);
    assert!(out.is_none(), "C06.len.no_output: a datagram is produced while reading the length field");
    if F + N < 4 {
        assert!(matches!(d.state, RecvState::Length), "C06.len.state_wait: state left Length before the 4 length bytes arrived");
        assert!(tail.is_empty(), "C06.len.tail_wait: unconsumed bytes returned although the field is incomplete");
        check_buffered(&d, &pre, raw);
        kani::cover!(true, "C06.cover.wait_branch");
    } else {
        let total = u32::from_be_bytes([at(&pre, raw, 0), at(&pre, raw, 1), at(&pre, raw, 2), at(&pre, raw, 3)]) as usize;
        assert!(d.buffer.is_empty(), "C06.len.buffer_reset: buffer not emptied after the field completed");
        if total >= HDR {
            assert!(matches!(d.state, RecvState::FixedHeader), "C06.len.to_header: a record long enough for the fixed header must proceed to it");
            assert!(d.total_length == total, "C06.len.total: declared length is not the big-endian value of the 4 bytes");
        } else {
            // shorter than its own header: skipped in its entirety = exactly `total` further bytes
            match d.state {
                RecvState::Dropping(r) => assert!(r == total, "C06.len.drop_extent: a too-short record must be skipped for exactly its declared length"),
                RecvState::Length => assert!(total == 0, "C06.len.drop_extent: a too-short record must be skipped for exactly its declared length"),
                _ => assert!(false, "C06.len.drop_state: a record shorter than its own header is not skipped"),
            }
        }
        check_tail!(tail, raw, 4 - F, "C06.len.tail_len: unconsumed tail has the wrong length", "C06.len.tail_content: unconsumed tail is not the rest of the chunk");
        kani::cover!(total >= HDR, "C06.cover.len_ok");
        kani::cover!(total < HDR, "C06.cover.len_short");
    }
    core::mem::forget(tail);
    core::mem::forget(d);
}

/*@gen
{"name": "c06_step_length_fill{0}_chunk{1}", "call": "step_length::<{0}, {1}>()", "unwind": 12, "stubs": ["bytes", "bytesmut", "fmt"], "core": true,
 "bound": "state Length with exactly {0} bytes buffered; chunk of exactly {1} bytes; contents symbolic",
 "desc": "one transition of the 6.3 decoder in state Length equals the reference transition (wait / big-endian length / skip of a too-short record / suffix returned)",
 "encodes": ["http_udp_codec::Decoder::process_client_length", "http_udp_codec::Decoder::buffered_read"],
 "quick": "[(0,1),(0,3),(0,4),(0,6),(1,2),(1,3),(2,5),(3,1),(3,4)]",
 "thorough": "[(f,n) for f in range(0,4) for n in range(1,9)]"}
@*/

// ---------------------------------------------------------------------------------------------
// Fixed header (37 bytes): 16-byte source, port, 16-byte destination, port, app-name length
// ---------------------------------------------------------------------------------------------
fn ref_ip(b: &[u8; 16]) -> IpAddr {
    let mut pad_zero = true;
    let mut i = 0;
    while i < 12 {
        pad_zero = pad_zero && b[i] == 0;
        i += 1;
    }
    if pad_zero {
        IpAddr::V4(Ipv4Addr::new(b[12], b[13], b[14], b[15]))
    } else {
        IpAddr::V6(Ipv6Addr::from(*b))
    }
}

fn step_header<const F: usize, const N: usize>() {
    let pre: [u8; F] = kani::any();
    let (raw, chunk) = sym_static::<N>();
    let total: usize = kani::any();
    kani::assume(total >= HDR && total <= u32::MAX as usize); // Inv
    let mut d = mk_decoder(RecvState::FixedHeader, total, &pre);
    let (out, tail) = d.decode_chunk_once(chunk);
    assert!(out.is_none(), "C06.hdr.no_output: a datagram is produced while reading the fixed header");
    if F + N < HDR {
        assert!(matches!(d.state, RecvState::FixedHeader), "C06.hdr.state_wait: state left FixedHeader before its 37 bytes arrived");
        assert!(tail.is_empty(), "C06.hdr.tail_wait: unconsumed bytes returned although the header is incomplete");
        check_buffered(&d, &pre, raw);
        kani::cover!(true, "C06.cover.wait_branch");
    } else {
        let mut h = [0u8; HDR];
        let mut i = 0;
        while i < HDR {
            h[i] = at(&pre, raw, i);
            i += 1;
        }
        let mut a = [0u8; 16];
        let mut b = [0u8; 16];
        let mut k = 0;
        while k < 16 {
            a[k] = h[k];
            b[k] = h[18 + k];
            k += 1;
        }
        let want_src = SocketAddr::new(ref_ip(&a), u16::from_be_bytes([h[16], h[17]]));
        let want_dst = SocketAddr::new(ref_ip(&b), u16::from_be_bytes([h[34], h[35]]));
        let app_len = h[36] as usize;
        assert!(d.total_length == total, "C06.hdr.total_kept: declared length changed while reading the header");
        assert!(d.buffer.is_empty(), "C06.hdr.buffer_reset: buffer not emptied after the header completed");
        let rest = total - HDR; // bytes of this record after the fixed header
        match d.state {
            RecvState::AppName(l) => {
                assert!(l == app_len, "C06.hdr.app_len: application-name length is not byte 36 of the header");
                assert!(rest >= app_len, "C06.hdr.accept_short: a record too short to hold its application name is accepted");
                assert!(rest - app_len <= 65507, "C06.hdr.accept_huge: a record larger than a UDP payload allows is accepted");
                assert!(d.source == Some(want_src), "C06.hdr.source: source address/port not decoded per 6.3");
                assert!(d.destination == Some(want_dst), "C06.hdr.destination: destination address/port not decoded per 6.3");
            }
            RecvState::Dropping(r) => {
                assert!(r == rest, "C06.hdr.drop_extent: a rejected record must be skipped up to its declared end");
                assert!(!(rest >= app_len && rest - app_len <= 60000), "C06.hdr.drop_valid: a well-formed record of ordinary size is skipped");
            }
            RecvState::Length => {
                assert!(rest == 0 && app_len > 0, "C06.hdr.drop_extent: a rejected record must be skipped up to its declared end");
            }
            _ => assert!(false, "C06.hdr.state: unexpected state after the fixed header"),
        }
        check_tail!(tail, raw, HDR - F, "C06.hdr.tail_len: unconsumed tail has the wrong length", "C06.hdr.tail_content: unconsumed tail is not the rest of the chunk");
        kani::cover!(matches!(d.state, RecvState::AppName(_)) && matches!(want_src.ip(), IpAddr::V4(_)), "C06.cover.hdr_accept_v4");
        kani::cover!(matches!(d.state, RecvState::AppName(_)) && matches!(want_dst.ip(), IpAddr::V6(_)), "C06.cover.hdr_accept_v6");
        kani::cover!(matches!(d.state, RecvState::Dropping(_)) && rest < app_len, "C06.cover.hdr_drop_short");
        kani::cover!(matches!(d.state, RecvState::Dropping(_)) && rest >= app_len, "C06.cover.hdr_drop_huge");
    }
    core::mem::forget(tail);
    core::mem::forget(d);
}

/*@gen
{"name": "c06_step_header_fill{0}_chunk{1}", "call": "step_header::<{0}, {1}>()", "unwind": 40, "stubs": ["bytes", "bytesmut", "fmt"], "core": true,
 "bound": "state FixedHeader with exactly {0} bytes buffered and a symbolic declared length >= 37; chunk of exactly {1} bytes; contents symbolic",
 "desc": "one transition in state FixedHeader equals the reference: addresses/ports decoded per 6.3 (IPv4 zero-padded), accept / skip decision, skip extent = rest of the record, suffix returned",
 "encodes": ["http_udp_codec::Decoder::process_client_fixed_header", "http_udp_codec::Decoder::buffered_read", "net_utils::get_fixed_size_ip"],
 "quick": "[(0,37),(0,40),(0,36),(1,36),(20,17),(36,1),(36,3),(10,5)]",
 "thorough": "[(f,n) for f in (0,1,17,18,35,36) for n in (1,2,18,19,36,37,38) if (f,n) not in [(0,37),(0,36),(1,36),(36,1)]]"}
@*/

// ---------------------------------------------------------------------------------------------
// Application name (L bytes, UTF-8)
// ---------------------------------------------------------------------------------------------
fn ref_is_utf8(b: &[u8]) -> bool {
    std::str::from_utf8(b).is_ok()
}

fn step_app_name<const L: usize, const F: usize, const N: usize>() {
    let pre: [u8; F] = kani::any();
    let (raw, chunk) = sym_static::<N>();
    let total: usize = kani::any();
    kani::assume(total >= HDR + L && total <= u32::MAX as usize); // Inv
    let mut d = mk_decoder(RecvState::AppName(L), total, &pre);
    let (out, tail) = d.decode_chunk_once(chunk);
    assert!(out.is_none(), "C06.name.no_output: a datagram is produced while reading the application name");
    if F + N < L {
        assert!(matches!(d.state, RecvState::AppName(l) if l == L), "C06.name.state_wait: state left AppName before the name arrived");
        assert!(tail.is_empty(), "C06.name.tail_wait: unconsumed bytes returned although the name is incomplete");
        check_buffered(&d, &pre, raw);
        kani::cover!(true, "C06.cover.wait_branch");
    } else {
        let mut name = [0u8; L];
        let mut i = 0;
        while i < L {
            name[i] = at(&pre, raw, i);
            i += 1;
        }
        let payload_len = total - HDR - L;
        if ref_is_utf8(&name) {
            assert!(matches!(d.state, RecvState::Payload(p) if p == payload_len), "C06.name.to_payload: payload length is not declared length - header - name");
            match &d.app_name {
                None => assert!(false, "C06.name.lost: application name not recorded"),
                Some(s) => {
                    assert!(s.len() == L, "C06.name.len: application name has the wrong length");
                    let sb = s.as_bytes();
                    let mut i = 0;
                    while i < L {
                        assert!(sb[i] == name[i], "C06.name.content: application name bytes altered");
                        i += 1;
                    }
                }
            }
            kani::cover!(true, "C06.cover.name_utf8");
        } else {
            match d.state {
                RecvState::Dropping(r) => assert!(r == payload_len, "C06.name.drop_extent: a record with a non-UTF-8 name must be skipped up to its declared end"),
                RecvState::Length => assert!(payload_len == 0, "C06.name.drop_extent: a record with a non-UTF-8 name must be skipped up to its declared end"),
                _ => assert!(false, "C06.name.drop_state: a record with a non-UTF-8 application name is not skipped"),
            }
            kani::cover!(true, "C06.cover.name_not_utf8");
        }
        assert!(d.buffer.is_empty(), "C06.name.buffer_reset: buffer not emptied after the name completed");
        check_tail!(tail, raw, L - F, "C06.name.tail_len: unconsumed tail has the wrong length", "C06.name.tail_content: unconsumed tail is not the rest of the chunk");
    }
    core::mem::forget(tail);
    core::mem::forget(d);
}

/*@gen
{"name": "c06_step_app_name_len{0}_fill{1}_chunk{2}", "call": "step_app_name::<{0}, {1}, {2}>()", "unwind": 12, "stubs": ["bytes", "bytesmut", "fmt"], "core": true,
 "bound": "state AppName({0}) with exactly {1} bytes buffered, symbolic declared length; chunk of exactly {2} bytes; contents symbolic (valid and invalid UTF-8)",
 "desc": "one transition in state AppName equals the reference: UTF-8 name recorded and Payload(declared - 37 - L) entered, or the rest of the record skipped; suffix returned",
 "encodes": ["http_udp_codec::Decoder::process_client_app_name", "http_udp_codec::Decoder::buffered_read"],
 "quick": "[(0,0,1),(0,0,3),(1,0,1),(1,0,2),(2,0,1),(2,1,1),(2,1,3),(3,0,3),(3,2,2)]",
 "thorough": "[(l,f,n) for l in (1,2,3,4) for f in range(0,l) for n in (1,l-f,l-f+1,l-f+2) if n >= 1]"}
@*/

// ---------------------------------------------------------------------------------------------
// Payload
// ---------------------------------------------------------------------------------------------
fn step_payload<const L: usize, const F: usize, const N: usize>() {
    let pre: [u8; F] = kani::any();
    let (raw, chunk) = sym_static::<N>();
    let total: usize = kani::any();
    let mut d = mk_decoder(RecvState::Payload(L), total, &pre);
    let s4: [u8; 4] = kani::any();
    let d16: [u8; 16] = kani::any();
    let src = SocketAddr::new(IpAddr::V4(Ipv4Addr::from(s4)), kani::any());
    let dst = SocketAddr::new(IpAddr::V6(Ipv6Addr::from(d16)), kani::any());
    d.source = Some(src);
    d.destination = Some(dst);
    let with_name: bool = kani::any();
    if with_name {
        d.app_name = Some(String::from("ab"));
    }
    let (out, tail) = d.decode_chunk_once(chunk);
    if F + N < L {
        assert!(out.is_none(), "C06.pay.early: a datagram is produced before its payload is complete");
        assert!(matches!(d.state, RecvState::Payload(l) if l == L), "C06.pay.state_wait: state left Payload before the payload arrived");
        assert!(tail.is_empty(), "C06.pay.tail_wait: unconsumed bytes returned although the payload is incomplete");
        check_buffered(&d, &pre, raw);
        kani::cover!(true, "C06.cover.wait_branch");
    } else {
        match &out {
            None => assert!(false, "C06.pay.late: a complete datagram is not produced when its last byte arrives"),
            Some(dg) => {
                assert!(dg.payload.len() == L, "C06.pay.len: payload has the wrong length");
                let mut i = 0;
                while i < L {
                    assert!(dg.payload[i] == at(&pre, raw, i), "C06.pay.content: payload bytes are not the stream bytes in order");
                    i += 1;
                }
                assert!(dg.meta.source == src, "C06.pay.source: datagram source is not the one of its header");
                assert!(dg.meta.destination == dst, "C06.pay.destination: datagram destination is not the one of its header");
                assert!(dg.meta.app_name.is_some() == with_name, "C06.pay.app_name: application name not carried over");
            }
        }
        kani::cover!(out.is_some(), "C06.cover.emit_branch");
        assert!(matches!(d.state, RecvState::Length), "C06.pay.state_done: decoder does not return to Length after a datagram");
        assert!(d.buffer.is_empty(), "C06.pay.buffer_reset: buffer not emptied after the datagram");
        assert!(d.app_name.is_none(), "C06.pay.name_reset: application name leaks into the next datagram");
        check_tail!(tail, raw, L - F, "C06.pay.tail_len: unconsumed tail has the wrong length", "C06.pay.tail_content: unconsumed tail is not the rest of the chunk");
    }
    core::mem::forget(out);
    core::mem::forget(tail);
    core::mem::forget(d);
}

/*@gen
{"name": "c06_step_payload_len{0}_fill{1}_chunk{2}", "call": "step_payload::<{0}, {1}, {2}>()", "unwind": 20, "stubs": ["bytes", "bytesmut", "fmt"], "core": true,
 "bound": "state Payload({0}) with exactly {1} bytes buffered; chunk of exactly {2} bytes; contents, addresses, ports symbolic",
 "desc": "one transition in state Payload equals the reference: datagram emitted exactly when the last payload byte arrives, with the header's endpoints and name, payload = stream bytes in order, suffix returned",
 "encodes": ["http_udp_codec::Decoder::process_client_payload"],
 "quick": "[(0,0,1),(0,0,2),(1,0,1),(1,0,3),(3,0,2),(3,0,3),(3,0,5),(3,1,1),(3,1,2),(3,1,4),(3,2,1),(3,2,3),(6,4,5)]",
 "thorough": "[(l,f,n) for l in (1,2,4,8) for f in range(0,l) for n in (1,l-f,l-f+1,l-f+3) if n >= 1]"}
@*/

// ---------------------------------------------------------------------------------------------
// Dropping(r): skip exactly r bytes, resume at the record boundary
// ---------------------------------------------------------------------------------------------
fn step_dropping<const N: usize>() {
    let (raw, chunk) = sym_static::<N>();
    let r: usize = kani::any();
    kani::assume(r <= u32::MAX as usize);
    let mut d = mk_decoder(RecvState::Dropping(r), kani::any(), &[]);
    let (out, tail) = d.decode_chunk_once(chunk);
    assert!(out.is_none(), "C06.drop.no_output: a datagram is produced while skipping a rejected record");
    let skipped = if r < N { r } else { N };
    if r <= N {
        assert!(matches!(d.state, RecvState::Length), "C06.drop.resume: decoding does not resume at the record boundary after the skip");
    } else {
        assert!(matches!(d.state, RecvState::Dropping(x) if x == r - N), "C06.drop.remaining: bytes still to skip miscounted");
    }
    check_tail!(tail, raw, skipped, "C06.drop.tail_len: the bytes after the skipped record are lost (tail has the wrong length)", "C06.drop.tail_is_suffix: the tail returned after a skip is not the bytes that follow the skipped ones");
    kani::cover!(r < N, "C06.cover.drop_within_chunk");
    kani::cover!(r > N, "C06.cover.drop_beyond_chunk");
    kani::cover!(r == 0, "C06.cover.drop_zero");
    core::mem::forget(tail);
    core::mem::forget(d);
}

/*@gen
{"name": "c06_step_dropping_chunk{0}", "call": "step_dropping::<{0}>()", "unwind": 12, "stubs": ["bytes", "bytesmut", "fmt"], "core": true,
 "bound": "state Dropping(r), r symbolic (0..2^32); chunk of exactly {0} bytes, contents symbolic",
 "desc": "skipping a rejected record consumes exactly min(r, chunk) bytes, returns the bytes that follow as the tail and returns to Length exactly at the record boundary",
 "encodes": ["http_udp_codec::Decoder::decode_chunk_once"],
 "quick": "[1, 2, 5]", "thorough": "[3, 4, 8]"}
@*/

// ---------------------------------------------------------------------------------------------
// Encoder (6.4)
// ---------------------------------------------------------------------------------------------
fn encoder<const P: usize, const TOTAL: usize, const SRC_V4: bool, const DST_V4: bool>() {
    // TOTAL = 40 + P
    let (raw, payload) = sym_static::<P>();
    let s4: [u8; 4] = kani::any();
    let s16: [u8; 16] = kani::any();
    let d4: [u8; 4] = kani::any();
    let d16: [u8; 16] = kani::any();
    let sp: u16 = kani::any();
    let dp: u16 = kani::any();
    let src = SocketAddr::new(if SRC_V4 { IpAddr::V4(Ipv4Addr::from(s4)) } else { IpAddr::V6(Ipv6Addr::from(s16)) }, sp);
    let dst = SocketAddr::new(if DST_V4 { IpAddr::V4(Ipv4Addr::from(d4)) } else { IpAddr::V6(Ipv6Addr::from(d16)) }, dp);
    let dg = forwarder::UdpDatagram { meta: forwarder::UdpDatagramMeta { source: src, destination: dst }, payload };
    let out = Encoder::default().encode_packet(&dg);
    let mut want = [0u8; TOTAL];
    let len = (36 + P) as u32;
    want[0] = (len >> 24) as u8;
    want[1] = (len >> 16) as u8;
    want[2] = (len >> 8) as u8;
    want[3] = len as u8;
    let mut i = 0;
    while i < 16 {
        want[4 + i] = if SRC_V4 { if i < 12 { 0 } else { s4[i - 12] } } else { s16[i] };
        want[22 + i] = if DST_V4 { if i < 12 { 0 } else { d4[i - 12] } } else { d16[i] };
        i += 1;
    }
    want[20] = (sp >> 8) as u8;
    want[21] = sp as u8;
    want[38] = (dp >> 8) as u8;
    want[39] = dp as u8;
    let mut i = 0;
    while i < P {
        want[40 + i] = raw[i];
        i += 1;
    }
    match &out {
        None => assert!(false, "C06.enc.none: a datagram for the client is not encoded"),
        Some(b) => {
            assert!(b.len() == TOTAL, "C06.enc.len: encoded record is not 4 + 36 + payload bytes");
            let mut i = 0;
            while i < TOTAL {
                assert!(b[i] == want[i], "C06.enc.bytes: encoded record differs from the 6.4 layout (big-endian length excluding itself, 16-byte zero-padded IPv4, ports, payload)");
                i += 1;
            }
        }
    }
    core::mem::forget(out);
    core::mem::forget(dg);
}

/*@gen
{"name": "c06_encoder_payload{0}_{4}", "call": "encoder::<{0}, {1}, {2}, {3}>()", "unwind": 60, "stubs": ["bytes", "bytesmut", "fmt"], "core": true,
 "bound": "payload of exactly {0} bytes, endpoints {4}, all contents symbolic",
 "desc": "records sent to the client have exactly the 6.4 layout",
 "encodes": ["http_udp_codec::Encoder::encode_packet", "net_utils::put_fixed_size_ip"],
 "quick": "[(0,40,'true','true','v4v4'),(3,43,'true','false','v4v6'),(5,45,'false','true','v6v4')]",
 "thorough": "[(p,40+p,a,b,('v4' if a=='true' else 'v6')+('v4' if b=='true' else 'v6')) for p in (1,2,9,16) for a in ('true','false') for b in ('true','false')]"}
@*/

/// Large payloads: the 6.4 length field is 32 bits wide and must hold 36 + payload length for every payload a UDP
/// socket can deliver (up to 65507 bytes, the forwarder's buffer is 65508).  The payload is a static all-zero array
/// (contents do not matter here), only the record length, the length field and the address block are examined.
/// Measured: 1472 bytes verify in 14 s; 32768 and 65500..65508 bytes make CBMC crash (status 139, stack exhaustion on
/// the 64 KiB array constant) and, with an unlimited stack, run past 400 s - so the sizes at which a 16-bit length
/// would wrap (seeded change C06-g) are NOT decided; the instances kept are an MTU-sized and a 4 KiB payload.
static BIG_ZEROS: [u8; 65508] = [0; 65508];

fn encoder_big<const P: usize>() {
    let payload = Bytes::from_static(&BIG_ZEROS[..P]);
    let s4: [u8; 4] = kani::any();
    let d4: [u8; 4] = kani::any();
    let sp: u16 = kani::any();
    let dp: u16 = kani::any();
    let dg = forwarder::UdpDatagram {
        meta: forwarder::UdpDatagramMeta { source: SocketAddr::new(IpAddr::V4(Ipv4Addr::from(s4)), sp), destination: SocketAddr::new(IpAddr::V4(Ipv4Addr::from(d4)), dp) },
        payload,
    };
    let out = Encoder::default().encode_packet(&dg);
    match &out {
        None => assert!(false, "C06.enc.big_none: a datagram for the client is not encoded"),
        Some(b) => {
            assert!(b.len() == 40 + P, "C06.enc.big_len: encoded record is not 4 + 36 + payload bytes");
            let len = (36 + P) as u32;
            assert!(b[0] == (len >> 24) as u8 && b[1] == (len >> 16) as u8 && b[2] == (len >> 8) as u8 && b[3] == len as u8, "C06.enc.big_length_field: the length field is not the big-endian record length excluding itself (a client following the length fields loses the record boundary)");
            assert!(b[16] == s4[0] && b[19] == s4[3] && b[20] == (sp >> 8) as u8 && b[21] == sp as u8, "C06.enc.big_source");
            assert!(b[34] == d4[0] && b[37] == d4[3] && b[38] == (dp >> 8) as u8 && b[39] == dp as u8, "C06.enc.big_destination");
            kani::cover!(true, "C06.cover.enc_big_reached");
        }
    }
    core::mem::forget(out);
    core::mem::forget(dg);
}

/// The sizes at which a narrower length computation would wrap (65500..=65508: 36 + n >= 65536).  The payload is a
/// slice header of that length whose bytes are never read: `BytesMut::extend_from_slice` is replaced by a version that
/// grows the buffer without copying (STUB `extnocopy`), so the claim of these instances is the record length, the
/// 32-bit length field and the address block - not the payload bytes, which the small instances cover.
/// NOT INSTANTIATED: even without the copy CBMC crashes (status 139) on `BytesMut::with_capacity(65540)` and, with an
/// unlimited stack, does not finish in 300 s - a 64 KiB heap object is beyond it.  Seeded change C06-g (16-bit length
/// computation) is therefore not caught.
fn encoder_max<const P: usize>() {
    let payload = crate::verif_env::unread_bytes(P);
    let s4: [u8; 4] = kani::any();
    let d4: [u8; 4] = kani::any();
    let sp: u16 = kani::any();
    let dp: u16 = kani::any();
    let dg = forwarder::UdpDatagram {
        meta: forwarder::UdpDatagramMeta { source: SocketAddr::new(IpAddr::V4(Ipv4Addr::from(s4)), sp), destination: SocketAddr::new(IpAddr::V4(Ipv4Addr::from(d4)), dp) },
        payload,
    };
    let out = Encoder::default().encode_packet(&dg);
    match &out {
        None => assert!(false, "C06.enc.max_none: a datagram for the client is not encoded"),
        Some(b) => {
            assert!(b.len() == 40 + P, "C06.enc.max_len: encoded record is not 4 + 36 + payload bytes");
            let len = (36 + P) as u32;
            assert!(b[0] == (len >> 24) as u8 && b[1] == (len >> 16) as u8 && b[2] == (len >> 8) as u8 && b[3] == len as u8, "C06.enc.max_length_field: the length field is not the big-endian record length excluding itself (a client following the length fields loses the record boundary)");
            assert!(b[16] == s4[0] && b[19] == s4[3] && b[20] == (sp >> 8) as u8 && b[21] == sp as u8, "C06.enc.max_source");
            assert!(b[34] == d4[0] && b[37] == d4[3] && b[38] == (dp >> 8) as u8 && b[39] == dp as u8, "C06.enc.max_destination");
            kani::cover!(true, "C06.cover.enc_max_reached");
        }
    }
    core::mem::forget(out);
    core::mem::forget(dg);
}

/*@gen
{"name": "c06_encoder_max_payload{0}", "call": "encoder_max::<{0}>()", "unwind": 20, "stubs": ["bytes", "bytesmut", "fmt", "extnocopy"], "core": true,
 "bound": "payload of exactly {0} bytes (never read: the copy into the record is cut), IPv4 endpoints and ports symbolic",
 "desc": "record length, 32-bit length field and address block of a record carrying a maximal UDP payload",
 "encodes": ["http_udp_codec::Encoder::encode_packet"],
 "quick": "[]", "thorough": "[]"}
@*/

/*@gen
{"name": "c06_encoder_big_payload{0}", "call": "encoder_big::<{0}>()", "unwind": 20, "stubs": ["bytes", "bytesmut", "fmt"], "core": true,
 "bound": "payload of exactly {0} zero bytes, IPv4 endpoints and ports symbolic",
 "desc": "the 32-bit length field and the address block of a record carrying a maximal UDP payload",
 "encodes": ["http_udp_codec::Encoder::encode_packet"],
 "quick": "[1472]", "thorough": "[4096]"}
@*/

// ---------------------------------------------------------------------------------------------
// Whole record through decode_chunk (loop glue), one chunk - not instantiated in any tier: 4-5 chained transitions
// over heap-backed Bytes do not finish within 600 s; the loop glue is three lines and is covered by reading only
// ---------------------------------------------------------------------------------------------
fn whole_record<const L: usize, const P: usize, const EXTRA: usize, const N: usize>() {
    // N = 4 + 37 + L + P + EXTRA
    let (raw, chunk) = sym_static::<N>();
    let total = (HDR + L + P) as u32;
    kani::assume(raw[0] == (total >> 24) as u8 && raw[1] == (total >> 16) as u8 && raw[2] == (total >> 8) as u8 && raw[3] == total as u8);
    kani::assume(raw[40] == L as u8);
    let mut name_ascii = true;
    let mut i = 0;
    while i < L {
        name_ascii = name_ascii && raw[41 + i] < 0x80;
        i += 1;
    }
    kani::assume(name_ascii);
    let mut d = Decoder::new(log_utils::IdChain::empty());
    match d.decode_chunk(chunk) {
        DecodeResult::WantMore => assert!(P == 0 && EXTRA == 0, "C06.whole.wantmore: a complete record in one chunk is not decoded"),
        DecodeResult::Complete(dg, tail) => {
            assert!(dg.payload.len() == P, "C06.whole.payload_len: payload length");
            let mut i = 0;
            while i < P {
                assert!(dg.payload[i] == raw[41 + L + i], "C06.whole.payload: payload bytes");
                i += 1;
            }
            assert!(dg.meta.source.port() == u16::from_be_bytes([raw[20], raw[21]]), "C06.whole.sport: source port");
            assert!(dg.meta.destination.port() == u16::from_be_bytes([raw[38], raw[39]]), "C06.whole.dport: destination port");
            assert!(dg.meta.app_name.as_ref().map(|s| s.len()) == Some(L), "C06.whole.name: application name");
            check_tail!(tail, raw, N - EXTRA, "C06.whole.tail_len: tail length", "C06.whole.tail_content: tail is not the bytes after the record");
            kani::cover!(true, "C06.cover.whole_complete");
            core::mem::forget(dg);
            core::mem::forget(tail);
        }
    }
    core::mem::forget(d);
}

/*@gen
{"name": "c06_whole_record_name{0}_payload{1}_extra{2}", "call": "whole_record::<{0}, {1}, {2}, {3}>()", "unwind": 46, "stubs": ["bytes", "bytesmut", "fmt"], "core": false,
 "bound": "one chunk holding a complete record (ASCII name of {0} bytes, payload of {1} bytes) followed by {2} more bytes; all other contents symbolic",
 "desc": "decode_chunk drives the five arms in sequence over one chunk and returns the datagram and the bytes that follow it",
 "encodes": ["http_udp_codec::Decoder::decode_chunk"],
 "quick": "[]", "thorough": "[]"}
@*/
