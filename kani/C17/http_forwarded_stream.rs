//! C17 — plain-HTTP forwarding: one-step simulation of the response-body state machine of ForwardedStreamSink.
//! @encodes http_forwarded_stream::ForwardedStreamSink::write
//! @encodes http_forwarded_stream::ForwardedStreamSink::on_non_encoded_chunk
//! @encodes http_forwarded_stream::ForwardedStreamSink::on_encoded_chunk
//! @encodes http_forwarded_stream::ForwardedStreamSink::on_encoded_chunk_prefix
//! @encodes http_forwarded_stream::ForwardedStreamSink::on_encoded_chunk_suffix
//! @encodes http_forwarded_stream::ForwardedStreamSink::wait_writable
//! @encodes http_forwarded_stream::ForwardedStreamSource::consume
//! @cut K1
//! @assume the client-side sink is a mock that accepts a symbolic prefix (0..=offered) of every write and records the bytes it accepted, eof() and wait_writable() calls; it lives in the harness's stack frame and deallocation is a no-op
//! @assume chunk shapes (bytes offered per write, remaining chunk size, bytes already buffered) are concrete per instance; byte contents and the accepted amounts are symbolic
//! @assume reference = RFC 9112 section 6-7 body framing as a function of the position in the origin's byte stream: body bytes are delivered exactly once and in order, framing bytes are never delivered, the bytes returned as unsent are exactly the bytes of the chunk not yet consumed
use super::*;
use crate::verif_env::prefix_sink::{self, PrefixSink};
use crate::verif_env::{poll_n, stack_box, sym_static};
use std::mem::ManuallyDrop;

fn mk_sink(ps: &mut ManuallyDrop<PrefixSink>) -> Box<dyn pipe::Sink> {
    stack_box::<PrefixSink>(ps)
}

fn wait_ok(s: &mut ForwardedStreamSink) -> bool {
    let mut fut = Box::pin(pipe::Sink::wait_writable(s));
    let r = poll_n(&mut fut, 2);
    let ok = matches!(r, Some(Ok(())));
    std::mem::forget(r);
    std::mem::forget(fut);
    ok
}

// ---------------------------------------------------------------------------------------------
// chunk data: TransferringBodyChunked(remaining = R), N bytes offered, sink accepts A (symbolic)
// ---------------------------------------------------------------------------------------------
fn chunk_data<const R: u64, const N: usize>() {
    let (raw, data) = sym_static::<N>();
    let a: usize = kani::any();
    kani::assume(a <= N);
    prefix_sink::reset([a, 0, 0, 0]);
    let mut ps = ManuallyDrop::new(PrefixSink);
    let mut s = ManuallyDrop::new(ForwardedStreamSink {
        state: SinkState::TransferringBodyChunked(SinkTransferringBodyChunked { sink: mk_sink(&mut ps), remaining_chunk_size: Some(R) }),
        fake_unsent: false,
        id: log_utils::IdChain::empty(),
    });
    let r = pipe::Sink::write(&mut *s, data);
    let body_in_data = if (N as u64) < R { N } else { R as usize };
    let accepted = if a < body_in_data { a } else { body_in_data };
    match &r {
        Err(_) => assert!(false, "C17.chunk.err: forwarding chunk data failed although the client sink did not"),
        Ok(tail) => {
            assert!(prefix_sink::writes() == 1 && prefix_sink::offered(0) == body_in_data, "C17.chunk.offer: the client sink must be offered exactly the bytes of this chunk that are in the write");
            // what comes back is everything not consumed: the unaccepted body bytes and whatever follows the chunk
            assert!(tail.len() == N - accepted, "C17.chunk.tail_len: bytes returned as unsent are not the bytes the client sink did not accept");
            let mut i = 0;
            while i < N - accepted {
                assert!(tail[i] == raw[accepted + i], "C17.chunk.tail_content: bytes returned as unsent are not the suffix of the write");
                i += 1;
            }
            // position in the chunk advances by what was delivered, not by what was offered
            let left = R - accepted as u64;
            match &s.state {
                SinkState::TransferringBodyChunked(x) => {
                    assert!(left > 0, "C17.chunk.state_overrun: still inside the chunk although all its bytes were delivered");
                    assert!(x.remaining_chunk_size == Some(left), "C17.chunk.remaining: remaining chunk size must shrink by the bytes the client accepted (not by the bytes offered)");
                }
                SinkState::WaitingChunkSuffix(x) => {
                    assert!(left == 0, "C17.chunk.state_early: the chunk is treated as finished before all of its bytes were delivered");
                    assert!(!x.terminating_chunk && x.buffer.is_empty(), "C17.chunk.suffix_state: wrong suffix state after a data chunk");
                }
                _ => assert!(false, "C17.chunk.state_lost: the sink leaves the chunked-body states in the middle of a chunk (further writes fail with 'Invalid state')"),
            }
            if !tail.is_empty() {
                // what the pipe does next is wait_writable(): it must wait for the client side iff the client pushed back,
                // and must not fail ("Invalid state") when the remainder is only due to framing
                if accepted < body_in_data {
                    assert!(!s.fake_unsent && matches!(&s.state, SinkState::TransferringBodyChunked(_)), "C17.chunk.backpressure: after the client side pushed back the sink must wait for it (not report itself writable at once)");
                } else {
                    assert!(s.fake_unsent || matches!(&s.state, SinkState::WaitingChunkPrefix(_) | SinkState::WaitingChunkSuffix(_)), "C17.chunk.wait: wait_writable would fail or block after a write whose remainder is only framing");
                }
            }
            kani::cover!(accepted < body_in_data, "C17.cover.chunk_partial_accept");
            kani::cover!(left == 0, "C17.cover.chunk_complete");
            kani::cover!(left > 0, "C17.cover.chunk_continues");
        }
    }
    std::mem::forget(r);
}

/*@gen
{"name": "c17_chunk_data_remaining{0}_write{1}", "call": "chunk_data::<{0}, {1}>()", "unwind": 12, "stubs": ["bytes", "bytesmut", "fmt", "nofree"], "core": true,
 "bound": "inside a chunk with exactly {0} bytes remaining; a write of exactly {1} bytes (symbolic contents); the client sink accepts a symbolic prefix 0..=offered",
 "desc": "one transition of the de-chunker inside chunk data equals the reference: exactly the chunk's bytes are offered, unaccepted bytes and following bytes come back as unsent, the position advances by the accepted amount, the state stays usable",
 "encodes": ["http_forwarded_stream::ForwardedStreamSink::on_encoded_chunk"],
 "quick": "[(3,3),(3,5),(5,3),(1,1),(4,2)]", "thorough": "[(r,n) for r in (1,2,6) for n in (1,2,6,7)]"}
@*/

// ---------------------------------------------------------------------------------------------
// identity body: TransferringBodyNonEncoded(body_length, sent_bytes), N bytes offered, sink accepts A
// ---------------------------------------------------------------------------------------------
fn plain_body<const LEN: u64, const SENT: u64, const N: usize>() {
    // LEN == u64::MAX encodes "close-delimited" (no Content-Length)
    let (raw, data) = sym_static::<N>();
    let a: usize = kani::any();
    kani::assume(a <= N);
    prefix_sink::reset([a, 0, 0, 0]);
    let mut ps = ManuallyDrop::new(PrefixSink);
    let body_length = if LEN == u64::MAX { None } else { Some(LEN) };
    let mut s = ManuallyDrop::new(ForwardedStreamSink {
        state: SinkState::TransferringBodyNonEncoded(SinkTransferringBodyNonEncoded { sink: mk_sink(&mut ps), body_length, sent_bytes: SENT }),
        fake_unsent: false,
        id: log_utils::IdChain::empty(),
    });
    let r = pipe::Sink::write(&mut *s, data);
    let body_in_data = match body_length {
        None => N,
        Some(l) => {
            let left = (l - SENT) as usize;
            if N < left { N } else { left }
        }
    };
    let accepted = if a < body_in_data { a } else { body_in_data };
    match &r {
        Err(_) => assert!(body_length.is_some() && SENT >= LEN, "C17.plain.err: forwarding body bytes failed although the client sink did not"),
        Ok(tail) => {
            assert!(prefix_sink::writes() == 1 && prefix_sink::offered(0) == body_in_data, "C17.plain.offer: the client sink must be offered exactly the body bytes contained in the write");
            assert!(tail.len() == N - accepted, "C17.plain.tail_len: bytes returned as unsent are not the bytes the client sink did not accept");
            let mut i = 0;
            while i < N - accepted {
                assert!(tail[i] == raw[accepted + i], "C17.plain.tail_content: bytes returned as unsent are not the suffix of the write");
                i += 1;
            }
            let complete = body_length.is_some() && SENT + accepted as u64 == LEN;
            assert!((prefix_sink::eofs() == 1) == complete, "C17.plain.eof: end of stream must be signalled exactly when the last body byte has been delivered");
            match &s.state {
                SinkState::TransferringBodyNonEncoded(x) => {
                    assert!(x.sent_bytes == SENT + accepted as u64, "C17.plain.sent: delivered-byte count must grow by the bytes the client accepted");
                }
                _ => assert!(false, "C17.plain.state_lost: the sink leaves the body state"),
            }
            kani::cover!(accepted < body_in_data, "C17.cover.plain_partial_accept");
            kani::cover!(complete, "C17.cover.plain_complete");
            kani::cover!(N > body_in_data, "C17.cover.plain_surplus");
        }
    }
    std::mem::forget(r);
}

/*@gen
{"name": "c17_plain_body_len{3}_sent{1}_write{2}", "call": "plain_body::<{0}, {1}, {2}>()", "unwind": 12, "stubs": ["bytes", "bytesmut", "fmt", "nofree"], "core": true,
 "bound": "identity body, Content-Length {3}, {1} bytes already delivered; a write of exactly {2} bytes (symbolic contents); the client sink accepts a symbolic prefix 0..=offered",
 "desc": "one transition of identity-body forwarding equals the reference: only body bytes are offered, unaccepted and surplus bytes come back as unsent, the count grows by the accepted amount, eof exactly at the last body byte; no panic",
 "encodes": ["http_forwarded_stream::ForwardedStreamSink::on_non_encoded_chunk"],
 "quick": "[(5,0,5,5),(5,0,3,5),(5,2,3,5),(5,2,5,5),(5,0,7,5),('{ u64::MAX }',0,4,'none'),('{ u64::MAX }',9,2,'none')]",
 "thorough": "[(l,s,n,l) for l in (1,4) for s in range(0,l) for n in (1,l-s,l-s+1)]"}
@*/

// ---------------------------------------------------------------------------------------------
// chunk suffix: WaitingChunkSuffix(buffered B bytes of CRLF, terminating or not), N bytes offered
// ---------------------------------------------------------------------------------------------
fn chunk_suffix<const B: usize, const TERM: bool, const N: usize>() {
    let (raw, data) = sym_static::<N>();
    prefix_sink::reset([0, 0, 0, 0]);
    let mut ps = ManuallyDrop::new(PrefixSink);
    let mut buffer = BytesMut::with_capacity(2);
    if B == 1 {
        buffer.extend_from_slice(b"\r");
    }
    let mut s = ManuallyDrop::new(ForwardedStreamSink {
        state: SinkState::WaitingChunkSuffix(SinkWaitingChunkSuffix { buffer, terminating_chunk: TERM, sink: mk_sink(&mut ps) }),
        fake_unsent: false,
        id: log_utils::IdChain::empty(),
    });
    let r = pipe::Sink::write(&mut *s, data);
    // reference: the suffix is CRLF; B bytes of it have been seen
    let need = 2 - B;
    let take = if N < need { N } else { need };
    let mut good = true;
    let mut i = 0;
    while i < take {
        good = good && raw[i] == b"\r\n"[B + i];
        i += 1;
    }
    match &r {
        Err(_) => assert!(!good, "C17.suffix.err: a well-formed chunk terminator is rejected"),
        Ok(tail) => {
            assert!(good, "C17.suffix.accepts_garbage: a malformed chunk terminator is accepted");
            assert!(prefix_sink::writes() == 0, "C17.suffix.leak: framing bytes were delivered to the client as body");
            if take < need {
                assert!(tail.is_empty(), "C17.suffix.tail_wait");
                assert!(matches!(&s.state, SinkState::WaitingChunkSuffix(x) if x.buffer.len() == B + take && x.terminating_chunk == TERM), "C17.suffix.state_wait: incomplete terminator not remembered");
            } else if TERM {
                assert!(prefix_sink::eofs() == 1, "C17.suffix.eof: the end of the chunked body must end the client's stream");
                assert!(tail.is_empty(), "C17.suffix.term_tail: bytes after the terminating chunk must not be re-offered");
            } else {
                assert!(matches!(&s.state, SinkState::WaitingChunkPrefix(x) if x.buffer.is_empty()), "C17.suffix.state_next: after a chunk terminator the next chunk header is expected");
                assert!(tail.len() == N - take, "C17.suffix.tail_len: the bytes after the terminator (the next chunk header) are lost or duplicated");
                let mut i = 0;
                while i < N - take {
                    assert!(tail[i] == raw[take + i], "C17.suffix.tail_content: the bytes after the terminator are not returned unchanged");
                    i += 1;
                }
                assert!(prefix_sink::eofs() == 0, "C17.suffix.early_eof");
                if !tail.is_empty() {
                    assert!(s.fake_unsent || matches!(&s.state, SinkState::WaitingChunkPrefix(_) | SinkState::WaitingChunkSuffix(_)), "C17.suffix.wait: wait_writable would fail after a write whose remainder is only framing");
                }
            }
            kani::cover!(true, "C17.cover.suffix_ok");
        }
    }
    kani::cover!(r.is_err(), "C17.cover.suffix_err");
    std::mem::forget(r);
}

/*@gen
{"name": "c17_chunk_suffix_buffered{0}_{3}_write{2}", "call": "chunk_suffix::<{0}, {1}, {2}>()", "unwind": 12, "stubs": ["bytes", "bytesmut", "fmt", "nofree"], "core": true,
 "bound": "waiting for the CRLF after a chunk ({3}), {0} byte(s) of it already seen; a write of exactly {2} bytes, symbolic contents",
 "desc": "one transition of the chunk-terminator state equals the reference: exactly the missing terminator bytes are consumed, the rest of the write is returned, garbage is rejected, the terminating chunk ends the client's stream",
 "encodes": ["http_forwarded_stream::ForwardedStreamSink::on_encoded_chunk_suffix"],
 "quick": "[(0,'false',1,'data'),(0,'false',2,'data'),(0,'false',4,'data'),(1,'false',1,'data'),(1,'false',3,'data'),(0,'true',1,'last'),(0,'true',2,'last'),(1,'true',1,'last'),(0,'true',4,'last')]",
 "thorough": "[(1,'true',3,'last'),(1,'false',2,'data'),(0,'false',3,'data')]"}
@*/

// ---------------------------------------------------------------------------------------------
// chunk header: WaitingChunkPrefix(buffered B bytes of an incomplete chunk-size line), N bytes offered
// ---------------------------------------------------------------------------------------------
fn hexval(b: u8) -> Option<u64> {
    match b {
        b'0'..=b'9' => Some((b - b'0') as u64),
        b'a'..=b'f' => Some((b - b'a') as u64 + 10),
        _ => None,
    }
}

/// reference (RFC 9112 7.1, no extensions in the alphabet): 1*HEXDIG CRLF.  Some(Ok((pos, size))) complete,
/// Some(Err(())) malformed, None incomplete.
fn ref_chunk_line(t: &[u8]) -> Option<Result<(usize, u64), ()>> {
    let mut i = 0;
    let mut size = 0u64;
    while i < t.len() {
        match hexval(t[i]) {
            Some(v) => size = size * 16 + v,
            None => break,
        }
        i += 1;
    }
    if i == t.len() {
        return None;
    }
    if t[i] != b'\r' {
        return Some(Err(()));
    }
    if i + 1 == t.len() {
        return None;
    }
    if t[i + 1] != b'\n' {
        return Some(Err(()));
    }
    Some(Ok((i + 2, size)))
}

fn chunk_prefix<const B: usize, const N: usize, const T: usize>() {
    // T = B + N
    let pre: [u8; B] = kani::any();
    let (raw, data) = sym_static::<N>();
    let mut total = [0u8; T];
    let mut i = 0;
    while i < T {
        let b = if i < B { pre[i] } else { raw[i - B] };
        kani::assume(b == b'1' || b == b'a' || b == b'0' || b == b'\r' || b == b'\n');
        total[i] = b;
        i += 1;
    }
    kani::assume(hexval(total[0]).is_some()); // an empty size field is left to httparse's leniency
    // representation invariant: what is buffered is an incomplete chunk-size line
    kani::assume(B == 0 || ref_chunk_line(&pre).is_none());
    prefix_sink::reset([0, 0, 0, 0]);
    let mut ps = ManuallyDrop::new(PrefixSink);
    let mut buffer = BytesMut::with_capacity(16);
    buffer.extend_from_slice(&pre);
    let mut s = ManuallyDrop::new(ForwardedStreamSink {
        state: SinkState::WaitingChunkPrefix(SinkWaitingChunkPrefix { buffer, sink: mk_sink(&mut ps) }),
        fake_unsent: false,
        id: log_utils::IdChain::empty(),
    });
    let r = pipe::Sink::write(&mut *s, data);
    assert!(prefix_sink::writes() == 0, "C17.prefix.leak: chunk framing was delivered to the client as body");
    match ref_chunk_line(&total) {
        None => {
            assert!(matches!(&r, Ok(t) if t.is_empty()), "C17.prefix.wait: an incomplete chunk-size line must be consumed and waited for");
            match &s.state {
                SinkState::WaitingChunkPrefix(x) => {
                    assert!(x.buffer.len() == T, "C17.prefix.buffered: bytes of an incomplete chunk-size line are lost or duplicated");
                    let mut i = 0;
                    while i < T {
                        assert!(x.buffer[i] == total[i], "C17.prefix.buffered_content: buffered bytes altered");
                        i += 1;
                    }
                }
                _ => assert!(false, "C17.prefix.state_wait: state left the chunk-header state before the line was complete"),
            }
            kani::cover!(true, "C17.cover.prefix_partial");
        }
        Some(Err(())) => {
            assert!(r.is_err(), "C17.prefix.accepts_garbage: a malformed chunk-size line is accepted");
            kani::cover!(true, "C17.cover.prefix_malformed");
        }
        Some(Ok((pos, size))) => match &r {
            Err(_) => assert!(false, "C17.prefix.rejected: a well-formed chunk-size line is rejected"),
            Ok(tail) => {
                assert!(tail.len() == T - pos, "C17.prefix.tail_len: the bytes after the chunk-size line (chunk data) are lost or duplicated");
                let mut i = 0;
                while i < T - pos {
                    assert!(tail[i] == total[pos + i], "C17.prefix.tail_content: the bytes after the chunk-size line are not returned unchanged");
                    i += 1;
                }
                if size == 0 {
                    assert!(matches!(&s.state, SinkState::WaitingChunkSuffix(x) if x.terminating_chunk && x.buffer.is_empty()), "C17.prefix.last: a zero-size chunk must lead to the terminating state");
                } else {
                    assert!(matches!(&s.state, SinkState::TransferringBodyChunked(x) if x.remaining_chunk_size == Some(size)), "C17.prefix.size: chunk size is not the hexadecimal value of the line");
                }
                if !tail.is_empty() {
                    assert!(s.fake_unsent, "C17.prefix.wait_after: the remainder after a chunk-size line must be processable at once");
                }
                kani::cover!(size > 0 && !tail.is_empty(), "C17.cover.prefix_complete_with_data");
                kani::cover!(size == 0, "C17.cover.prefix_last_chunk");
            }
        },
    }
    std::mem::forget(r);
}

/*@gen
{"name": "c17_chunk_prefix_buffered{0}_write{1}", "call": "chunk_prefix::<{0}, {1}, {2}>()", "unwind": "max(12, {2} + 4)", "stubs": ["bytes", "bytesmut", "fmt", "nofree"], "core": true,
 "bound": "chunk-size line: {0} byte(s) of an incomplete line already buffered, a write of exactly {1} bytes; contents symbolic over the alphabet 0, 1, a, CR, LF",
 "desc": "one transition of the chunk-header state equals the reference: incomplete lines are buffered losslessly, malformed ones rejected, a complete line yields its hexadecimal size and returns exactly the bytes that follow it",
 "encodes": ["http_forwarded_stream::ForwardedStreamSink::on_encoded_chunk_prefix", "httparse::parse_chunk_size (third-party, executed for real)"],
 "quick": "[(0,1,1),(0,3,3),(0,5,5),(1,2,3),(2,3,5),(3,1,4),(0,11,11)]", "thorough": "[(0,2,2),(0,4,4),(1,1,2),(1,4,5),(2,1,3),(2,2,4),(4,1,5)]"}
@*/

// ---------------------------------------------------------------------------------------------
// request side: flow-control credit.  The serialized request head is framing added by the endpoint and must not be
// credited to the client's receive window; body bytes must be credited exactly.
// ---------------------------------------------------------------------------------------------
// @harness tier=quick core=yes bound="every pending head-byte count and every consume size (usize); body state and done state"
// @desc consume(n) returns to the client's window exactly the part of n that is body: the first skip_consume_bytes bytes consumed are the serialized head and are not credited
// @encodes http_forwarded_stream::ForwardedStreamSource::consume
#[kani::proof]
#[kani::unwind(4)]
#[kani::stub(<std::alloc::Global as std::alloc::Allocator>::deallocate, crate::verif_env::global_dealloc_noop)]
fn c17_request_credit_excludes_head_bytes() {
    use crate::verif_env::script_source::{self, ScriptSource};
    let skip: usize = kani::any();
    let n: usize = kani::any();
    let in_body: bool = kani::any();
    script_source::reset();
    let mut src = ManuallyDrop::new(ScriptSource { chunks: [b"", b""], idx: 0 });
    let state = if in_body {
        SourceState::TransferringBody(SourceTransferringBody { source: stack_box::<ScriptSource>(&mut src), body_length: BodyLength::Chunked, sent_bytes: 0 })
    } else {
        SourceState::Done
    };
    let mut s = ManuallyDrop::new(ForwardedStreamSource { state, skip_consume_bytes: skip, id: log_utils::IdChain::empty() });
    let r = pipe::Source::consume(&mut *s, n);
    assert!(r.is_ok(), "C17.credit.err");
    let head_part = if skip < n { skip } else { n };
    assert!(s.skip_consume_bytes == skip - head_part, "C17.credit.head_left: head bytes still to be skipped miscounted");
    let want = if in_body { n - head_part } else { 0 };
    assert!(script_source::consumed() == want, "C17.credit.body: the credit returned to the client's window is not exactly the body bytes forwarded");
    kani::cover!(in_body && skip > 0 && n > skip, "C17.cover.credit_head_and_body");
    kani::cover!(n <= skip, "C17.cover.credit_head_only");
}

/// (not instantiated in any tier: polling the async_trait future does not finish within 900 s - also not for the states
/// that await nothing, 3 and 5, measured again at 500 s; seeded change C17-f, which lives in wait_writable, is therefore not caught.
/// CBMC's own output shows symex descending through drop_glue::<Pin<Box<dyn Future<Output = io::Result<()>>>>> recursively -
/// the drop glue of one boxed async_trait future fans out over every future type with that output, each of which owns
/// such boxes again; allocating the boxes from a static arena (STUB `arena`) did not change that)
/// wait_writable per state: immediate when the previous write only stopped at a framing boundary, delegated to the
/// client-side sink inside a body, an error only where no response is in progress.
fn wait_table<const KIND: usize, const FAKE: bool>() {
    prefix_sink::reset([0, 0, 0, 0]);
    let mut ps = ManuallyDrop::new(PrefixSink);
    let mut mr = ManuallyDrop::new(crate::verif_env::mock::MockRespond);
    let state = match KIND {
        0 => SinkState::Idle,
        1 => SinkState::TransferringBodyNonEncoded(SinkTransferringBodyNonEncoded { sink: mk_sink(&mut ps), body_length: None, sent_bytes: 0 }),
        2 => SinkState::TransferringBodyChunked(SinkTransferringBodyChunked { sink: mk_sink(&mut ps), remaining_chunk_size: Some(1) }),
        3 => SinkState::WaitingChunkPrefix(SinkWaitingChunkPrefix { buffer: BytesMut::new(), sink: mk_sink(&mut ps) }),
        // still waiting for the final response head (where an interim 1xx response leaves the sink)
        5 => SinkState::WaitingResponse(SinkWaitingResponse {
            headers_buffer: BytesMut::new(),
            request_method: http::Method::GET,
            request_version: http::Version::HTTP_11,
            respond: stack_box::<crate::verif_env::mock::MockRespond>(&mut mr),
        }),
        _ => SinkState::WaitingChunkSuffix(SinkWaitingChunkSuffix { buffer: BytesMut::new(), terminating_chunk: false, sink: mk_sink(&mut ps) }),
    };
    let mut s = ManuallyDrop::new(ForwardedStreamSink { state, fake_unsent: FAKE, id: log_utils::IdChain::empty() });
    let ok = wait_ok(&mut s);
    if KIND == 5 {
        // after an interim response the bytes that followed it are handed back with the flag set (reachable state);
        // without the flag no response is in progress and nothing is demanded
        if FAKE {
            assert!(ok, "C17.wait.interim: wait_writable fails after an interim (1xx) response whose segment also carried the start of the final response: the exchange ends and the final response is lost");
        }
    } else {
        assert!(ok == (FAKE || KIND != 0), "C17.wait.table: wait_writable must succeed in every body state and after a framing-only remainder");
    }
    assert!(!s.fake_unsent, "C17.wait.flag: the framing-remainder flag must be consumed by wait_writable");
    kani::cover!(ok, "C17.cover.wait_ok");
    kani::cover!(!ok, "C17.cover.wait_err");
}

/*@gen
{"name": "c17_wait_writable_state{0}_fake{1}", "call": "wait_table::<{0}, {1}>()", "unwind": 12, "stubs": ["bytes", "bytesmut", "fmt", "nofree", "arena"], "core": false,
 "bound": "state #{0} (0 Idle, 1 identity body, 2 chunk data, 3 chunk header, 4 chunk terminator, 5 waiting for the response head), framing-remainder flag {1}",
 "desc": "wait_writable succeeds in every body state and after a framing-only remainder, and consumes the flag",
 "encodes": ["http_forwarded_stream::ForwardedStreamSink::wait_writable"],
 "quick": "[]", "thorough": "[]"}
@*/
