//! C12 — ClientHello random extraction and transparent replay of the peeked bytes.
//! @encodes tls_listener::TlsListener::extract_client_random
//! @encodes tls_parser::parse_tls_plaintext (third-party, executed for real)
//! @assume PrebufferedTcpStream::poll_read (the transparent replay of the peeked bytes) is NOT encoded: its fall-through branch polls a tokio::net::TcpStream, and any harness from which tokio's runtime context is reachable makes the Kani compiler crash (kani-compiler/src/intrinsics.rs:243); the read loop over the real socket, the 16 KiB cap, the rustls handshake and QUIC are outside the claim as well
use super::*;
use crate::verif_env::{noop_waker, fmt_format_stub};
use std::mem::{ManuallyDrop, MaybeUninit};

/// A minimal TLS 1.2-style ClientHello record (no extensions): 50 bytes.
fn hello(random: &[u8; 32]) -> [u8; 50] {
    let mut d = [0u8; 50];
    d[0] = 22; // handshake
    d[1] = 3;
    d[2] = 1;
    d[3] = 0;
    d[4] = 45; // record length
    d[5] = 1; // ClientHello
    d[6] = 0;
    d[7] = 0;
    d[8] = 41; // handshake length
    d[9] = 3;
    d[10] = 3;
    d[11..43].copy_from_slice(random);
    d[43] = 0; // session id length
    d[44] = 0;
    d[45] = 2; // cipher suites length
    d[46] = 0x13;
    d[47] = 0x01;
    d[48] = 1; // compression methods length
    d[49] = 0;
    d
}

// @harness tier=thorough core=no bound="a 50-byte ClientHello record (no session id, one cipher suite, no extensions) with a symbolic 32-byte random"
// @desc the extracted client random is exactly bytes 11..43 of the handshake record
// @encodes tls_listener::TlsListener::extract_client_random
#[kani::proof]
#[kani::unwind(6)]
#[kani::stub(alloc::fmt::format, fmt_format_stub)]
fn c12_extract_random_exact() {
    let random: [u8; 32] = kani::any();
    let d = hello(&random);
    match TlsListener::extract_client_random(&d) {
        ClientRandomExtraction::Found(r) => {
            assert!(r.len() == 32, "C12.extract.len: client random must be 32 bytes");
            // compared as four 64-bit words (no loop: the harness's unwind bound is kept minimal for the parser's sake)
            let w = |b: &[u8], k: usize| u64::from_be_bytes([b[k], b[k + 1], b[k + 2], b[k + 3], b[k + 4], b[k + 5], b[k + 6], b[k + 7]]);
            assert!(w(&r, 0) == w(&random, 0) && w(&r, 8) == w(&random, 8) && w(&r, 16) == w(&random, 16) && w(&r, 24) == w(&random, 24), "C12.extract.value: extracted value is not the random field of the ClientHello");
            kani::cover!(true, "C12.cover.extract_found");
            std::mem::forget(r);
        }
        ClientRandomExtraction::NeedMoreData => assert!(false, "C12.extract.needmore: a complete ClientHello record is reported incomplete"),
        ClientRandomExtraction::NotFound => assert!(false, "C12.extract.notfound: the random of a well-formed ClientHello is reported absent"),
    }
}

fn truncated<const N: usize>() {
    let random: [u8; 32] = kani::any();
    let d = hello(&random);
    let r = TlsListener::extract_client_random(&d[..N]);
    assert!(!matches!(r, ClientRandomExtraction::Found(_)), "C12.extract.prefix_found: a value is reported although the ClientHello record is incomplete");
    assert!(matches!(r, ClientRandomExtraction::NeedMoreData), "C12.extract.prefix_giveup: reading stops (random reported absent) although the rest of the ClientHello is still to come");
    kani::cover!(true, "C12.cover.truncated");
    std::mem::forget(r);
}

/*@gen
{"name": "c12_extract_random_prefix{0}", "call": "truncated::<{0}>()", "unwind": 40, "stubs": ["fmt"], "core": true,
 "bound": "the first {0} bytes of the 50-byte ClientHello record (symbolic random)",
 "desc": "every strict prefix of the record (any TCP segmentation of the first flight) yields NeedMoreData, never a value and never 'absent'",
 "encodes": ["tls_listener::TlsListener::extract_client_random"],
 "quick": "[0, 1, 5, 11, 43, 49]", "thorough": "[n for n in range(2, 49) if n not in (5, 11, 43)]"}
@*/
