//! C12 — ClientHello random extraction and transparent replay of the peeked bytes.
//! @encodes tls_listener::TlsListener::extract_client_random
//! @encodes tls_listener::PrebufferedTcpStream::poll_read
//! @encodes tls_parser::parse_tls_plaintext (third-party, executed for real)
//! @assume the TcpStream inside PrebufferedTcpStream is fabricated, uninitialised storage: any access to it while peeked bytes remain would be reported by CBMC as an invalid dereference
//! @assume the read loop over the real socket, the 16 KiB cap and the rustls handshake are outside the claim; by induction over poll_read calls the TLS stack sees the peeked bytes exactly once and in order before any socket byte
use super::*;
use crate::verif_env::{noop_waker, fmt_format_stub};
use std::mem::{ManuallyDrop, MaybeUninit};

fn replay<const P: usize, const C: usize>() {
    let pre: [u8; P] = kani::any();
    let pos: usize = kani::any();
    kani::assume(pos < P);
    let mut store = ManuallyDrop::new(pre);
    let prebuffer = unsafe { Vec::from_raw_parts(store.as_mut_ptr(), P, P) };
    let mut s = ManuallyDrop::new(MaybeUninit::<PrebufferedTcpStream>::uninit());
    let stream: &mut PrebufferedTcpStream = unsafe {
        let p = s.as_mut_ptr();
        std::ptr::write(std::ptr::addr_of_mut!((*p).prebuffer), prebuffer);
        std::ptr::write(std::ptr::addr_of_mut!((*p).prebuffer_pos), pos);
        &mut *p
    };
    let mut out = [0u8; C];
    let mut rb = ReadBuf::new(&mut out);
    let waker = noop_waker();
    let mut cx = Context::from_waker(&waker);
    let r = Pin::new(&mut *stream).poll_read(&mut cx, &mut rb);
    assert!(matches!(r, Poll::Ready(Ok(()))), "C12.replay.ready: peeked bytes must be available immediately");
    let avail = P - pos;
    let n = if avail < C { avail } else { C };
    assert!(rb.filled().len() == n, "C12.replay.count: the TLS stack must receive min(peeked bytes left, buffer space) bytes");
    let mut i = 0;
    while i < n {
        assert!(rb.filled()[i] == pre[pos + i], "C12.replay.bytes: peeked bytes must be replayed unchanged and in order");
        i += 1;
    }
    assert!(stream.prebuffer_pos == pos + n, "C12.replay.pos: replay position must advance by exactly the bytes handed over (none lost, none duplicated)");
    kani::cover!(n < avail, "C12.cover.replay_partial");
    kani::cover!(n == avail, "C12.cover.replay_rest");
    std::mem::forget(r);
}

/*@gen
{"name": "c12_prebuffer_replay_pre{0}_cap{1}", "call": "replay::<{0}, {1}>()", "unwind": 12, "stubs": [], "core": true,
 "bound": "{0} peeked bytes (symbolic), replay position symbolic in 0..{0}, read buffer of {1} bytes",
 "desc": "poll_read hands over exactly the next min(left, space) peeked bytes, advances by that amount and does not touch the socket while peeked bytes remain",
 "encodes": ["tls_listener::PrebufferedTcpStream::poll_read"],
 "quick": "[(4,2),(4,4),(4,8),(1,1)]", "thorough": "[(8,3),(8,8),(3,16)]"}
@*/

/// A minimal TLS 1.2-style ClientHello record (no extensions): 50 bytes.
fn hello(random: &[u8; 32]) -> [u8; 50] {
    let mut d = [0u8; 50];
    d[0] = 22; // handshake
    d[1] = 3;
    d[2] = 1;
    d[3] = 0;
    d[4] = 45; // record length
    d[5] = 1; // ClientHello
    d[6] = 0;
    d[7] = 0;
    d[8] = 41; // handshake length
    d[9] = 3;
    d[10] = 3;
    let mut i = 0;
    while i < 32 {
        d[11 + i] = random[i];
        i += 1;
    }
    d[43] = 0; // session id length
    d[44] = 0;
    d[45] = 2; // cipher suites length
    d[46] = 0x13;
    d[47] = 0x01;
    d[48] = 1; // compression methods length
    d[49] = 0;
    d
}

// @harness tier=quick core=yes bound="a 50-byte ClientHello record (no session id, one cipher suite, no extensions) with a symbolic 32-byte random"
// @desc the extracted client random is exactly bytes 11..43 of the handshake record
// @encodes tls_listener::TlsListener::extract_client_random
#[kani::proof]
#[kani::unwind(40)]
#[kani::stub(alloc::fmt::format, fmt_format_stub)]
fn c12_extract_random_exact() {
    let random: [u8; 32] = kani::any();
    let d = hello(&random);
    match TlsListener::extract_client_random(&d) {
        ClientRandomExtraction::Found(r) => {
            assert!(r.len() == 32, "C12.extract.len: client random must be 32 bytes");
            let mut i = 0;
            while i < 32 {
                assert!(r[i] == random[i], "C12.extract.value: extracted value is not the random field of the ClientHello");
                i += 1;
            }
            kani::cover!(true, "C12.cover.extract_found");
            std::mem::forget(r);
        }
        ClientRandomExtraction::NeedMoreData => assert!(false, "C12.extract.needmore: a complete ClientHello record is reported incomplete"),
        ClientRandomExtraction::NotFound => assert!(false, "C12.extract.notfound: the random of a well-formed ClientHello is reported absent"),
    }
}

fn truncated<const N: usize>() {
    let random: [u8; 32] = kani::any();
    let d = hello(&random);
    let r = TlsListener::extract_client_random(&d[..N]);
    assert!(!matches!(r, ClientRandomExtraction::Found(_)), "C12.extract.prefix_found: a value is reported although the ClientHello record is incomplete");
    assert!(matches!(r, ClientRandomExtraction::NeedMoreData), "C12.extract.prefix_giveup: reading stops (random reported absent) although the rest of the ClientHello is still to come");
    kani::cover!(true, "C12.cover.truncated");
    std::mem::forget(r);
}

/*@gen
{"name": "c12_extract_random_prefix{0}", "call": "truncated::<{0}>()", "unwind": 40, "stubs": ["fmt"], "core": true,
 "bound": "the first {0} bytes of the 50-byte ClientHello record (symbolic random)",
 "desc": "every strict prefix of the record (any TCP segmentation of the first flight) yields NeedMoreData, never a value and never 'absent'",
 "encodes": ["tls_listener::TlsListener::extract_client_random"],
 "quick": "[0, 1, 5, 11, 43, 49]", "thorough": "[n for n in range(2, 49) if n not in (5, 11, 43)]"}
@*/
