//! Shared verification environment, compiled into the crate (under cfg(kani))
//! in the scratch copy only.  Nothing here exists in /repo.
//!
//! * `poll_n` / `block_on_bounded`: a single-threaded poller with a no-op waker.
//! * byte helpers for building symbolic inputs.

use std::future::Future;
use std::pin::Pin;
use std::task::{Context, Poll, RawWaker, RawWakerVTable, Waker};

fn noop_raw_waker() -> RawWaker {
    fn no_op(_: *const ()) {}
    fn clone(_: *const ()) -> RawWaker {
        noop_raw_waker()
    }
    static VTABLE: RawWakerVTable = RawWakerVTable::new(clone, no_op, no_op, no_op);
    RawWaker::new(std::ptr::null(), &VTABLE)
}

pub(crate) fn noop_waker() -> Waker {
    unsafe { Waker::from_raw(noop_raw_waker()) }
}

/// Poll `fut` at most `n` times; `None` if it is still pending afterwards.
pub(crate) fn poll_n<F: Future>(fut: &mut Pin<Box<F>>, n: usize) -> Option<F::Output> {
    let waker = noop_waker();
    let mut cx = Context::from_waker(&waker);
    let mut i = 0;
    while i < n {
        if let Poll::Ready(x) = fut.as_mut().poll(&mut cx) {
            return Some(x);
        }
        i += 1;
    }
    None
}

/// Poll a pinned dyn future once.
pub(crate) fn poll_once<T>(fut: &mut Pin<Box<dyn Future<Output = T> + '_>>) -> Poll<T> {
    let waker = noop_waker();
    let mut cx = Context::from_waker(&waker);
    fut.as_mut().poll(&mut cx)
}

/// A symbolic byte array with a symbolic length `<= N`.
pub(crate) fn any_len<const N: usize>() -> usize {
    let n: usize = kani::any();
    kani::assume(n <= N);
    n
}

/// No-op replacement for `Drop for bytes::Bytes` / `BytesMut` (cut K2).
pub(crate) fn drop_bytes_noop(_b: &mut bytes::Bytes) {}
pub(crate) fn drop_bytesmut_noop(_b: &mut bytes::BytesMut) {}

/// Replacement for `alloc::fmt::format` (cut K3).
pub(crate) fn fmt_format_stub(_args: core::fmt::Arguments<'_>) -> String {
    String::new()
}

/// Leak a byte vector into a `'static` slice (no drop glue for CBMC to chew on).
pub(crate) fn leak(v: Vec<u8>) -> &'static [u8] {
    Box::leak(v.into_boxed_slice())
}

/// Cut K8: arbitrary bytes instead of the system RNG.
pub(crate) fn fill_any(data: &mut [u8]) {
    let mut i = 0;
    while i < data.len() {
        data[i] = kani::any();
        i += 1;
    }
}

/// `N` symbolic bytes as a leaked static slice plus a `Bytes` view of it (static vtable: no refcount traffic).
pub(crate) fn sym_static<const N: usize>() -> (&'static [u8], bytes::Bytes) {
    let buf: [u8; N] = kani::any();
    let s: &'static [u8] = Box::leak(Box::new(buf));
    (s, bytes::Bytes::from_static(s))
}

/// An `Arc<T>` whose control block lives in the caller's stack frame (std's `ArcInner` is `repr(C)`:
/// strong, weak, data).  Heap objects are not constant-folded by symex; stack objects are tracked field
/// by field, which keeps configuration values concrete.  The count starts high and the owner is
/// `mem::forget`-ed, so the block is never freed.
#[repr(C)]
pub(crate) struct StackArc<T> {
    strong: std::sync::atomic::AtomicUsize,
    weak: std::sync::atomic::AtomicUsize,
    pub data: T,
}

impl<T> StackArc<T> {
    pub(crate) fn new(data: T) -> Self {
        Self { strong: std::sync::atomic::AtomicUsize::new(1 << 20), weak: std::sync::atomic::AtomicUsize::new(1), data }
    }
    /// Safety: `self` must outlive every clone of the returned `Arc` and must not move afterwards.
    pub(crate) unsafe fn arc(&self) -> std::sync::Arc<T> {
        std::sync::Arc::from_raw(&self.data as *const T)
    }
}
