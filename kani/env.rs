//! Shared verification environment, compiled into the crate (under cfg(kani))
//! in the scratch copy only.  Nothing here exists in /repo.
//!
//! * `poll_n` / `block_on_bounded`: a single-threaded poller with a no-op waker.
//! * byte helpers for building symbolic inputs.

use std::future::Future;
use std::pin::Pin;
use std::task::{Context, Poll, RawWaker, RawWakerVTable, Waker};

fn noop_raw_waker() -> RawWaker {
    fn no_op(_: *const ()) {}
    fn clone(_: *const ()) -> RawWaker {
        noop_raw_waker()
    }
    static VTABLE: RawWakerVTable = RawWakerVTable::new(clone, no_op, no_op, no_op);
    RawWaker::new(std::ptr::null(), &VTABLE)
}

pub(crate) fn noop_waker() -> Waker {
    unsafe { Waker::from_raw(noop_raw_waker()) }
}

/// Poll `fut` at most `n` times; `None` if it is still pending afterwards.
pub(crate) fn poll_n<F: Future + ?Sized>(fut: &mut Pin<Box<F>>, n: usize) -> Option<F::Output> {
    let waker = noop_waker();
    let mut cx = Context::from_waker(&waker);
    let mut i = 0;
    while i < n {
        if let Poll::Ready(x) = fut.as_mut().poll(&mut cx) {
            return Some(x);
        }
        i += 1;
    }
    None
}

/// Poll a pinned dyn future once.
pub(crate) fn poll_once<T>(fut: &mut Pin<Box<dyn Future<Output = T> + '_>>) -> Poll<T> {
    let waker = noop_waker();
    let mut cx = Context::from_waker(&waker);
    fut.as_mut().poll(&mut cx)
}

/// A symbolic byte array with a symbolic length `<= N`.
pub(crate) fn any_len<const N: usize>() -> usize {
    let n: usize = kani::any();
    kani::assume(n <= N);
    n
}

/// No-op replacement for `Drop for bytes::Bytes` / `BytesMut` (cut K2).
pub(crate) fn drop_bytes_noop(_b: &mut bytes::Bytes) {}
pub(crate) fn drop_bytesmut_noop(_b: &mut bytes::BytesMut) {}

/// Replacement for `alloc::fmt::format` (cut K3).
pub(crate) fn fmt_format_stub(_args: core::fmt::Arguments<'_>) -> String {
    String::new()
}

/// Leak a byte vector into a `'static` slice (no drop glue for CBMC to chew on).
pub(crate) fn leak(v: Vec<u8>) -> &'static [u8] {
    Box::leak(v.into_boxed_slice())
}

/// Cut K8: arbitrary bytes instead of the system RNG.  Only the first 16 bytes of a longer buffer are made arbitrary
/// (the rest keeps its zero fill): the instances with large buffers examine the length only, and a loop over 32 KiB
/// cannot be unrolled.
pub(crate) fn fill_any(data: &mut [u8]) {
    let mut i = 0;
    while i < data.len() && i < 16 {
        data[i] = kani::any();
        i += 1;
    }
}

/// `N` symbolic bytes as a leaked static slice plus a `Bytes` view of it (static vtable: no refcount traffic).
pub(crate) fn sym_static<const N: usize>() -> (&'static [u8], bytes::Bytes) {
    let buf: [u8; N] = kani::any();
    let s: &'static [u8] = Box::leak(Box::new(buf));
    (s, bytes::Bytes::from_static(s))
}

/// An `Arc<T>` whose control block lives in the caller's stack frame (std's `ArcInner` is `repr(C)`:
/// strong, weak, data).  Heap objects are not constant-folded by symex; stack objects are tracked field
/// by field, which keeps configuration values concrete.  The count starts high and the owner is
/// `mem::forget`-ed, so the block is never freed.
#[repr(C)]
pub(crate) struct StackArc<T> {
    strong: std::sync::atomic::AtomicUsize,
    weak: std::sync::atomic::AtomicUsize,
    pub data: T,
}

impl<T> StackArc<T> {
    pub(crate) fn new(data: T) -> Self {
        Self { strong: std::sync::atomic::AtomicUsize::new(1 << 20), weak: std::sync::atomic::AtomicUsize::new(1), data }
    }
    /// Safety: `self` must outlive every clone of the returned `Arc` and must not move afterwards.
    pub(crate) unsafe fn arc(&self) -> std::sync::Arc<T> {
        if native_replay() {
            return std::sync::Arc::new(std::ptr::read(&self.data));
        }
        std::sync::Arc::from_raw(&self.data as *const T)
    }
}

// ---------------------------------------------------------------------------------------------
// Mocks of the crate's own traits (http_codec::Stream & co).  They record what they are given in
// statics (single-threaded harnesses) and never touch I/O.
// ---------------------------------------------------------------------------------------------
pub(crate) mod mock {
    use crate::http_codec::{self, RequestHeaders, ResponseHeaders};
    use crate::{authentication, datagram_pipe, log_utils, pipe};
    use bytes::Bytes;
    use std::io;
    use std::net::IpAddr;

    pub(crate) static mut RESP_COUNT: usize = 0;
    pub(crate) static mut RESP_STATUS: [u16; 4] = [0; 4];
    pub(crate) static mut RESP_EOF: [bool; 4] = [false; 4];
    pub(crate) static mut RESP_LAST: Option<ResponseHeaders> = None;
    pub(crate) static mut INTERIM_COUNT: usize = 0;
    pub(crate) static mut BAD_HEADERS: Option<Vec<(String, String)>> = None;
    pub(crate) static mut SPLIT_COUNT: usize = 0;

    pub(crate) fn reset() {
        unsafe {
            RESP_COUNT = 0;
            INTERIM_COUNT = 0;
            SPLIT_COUNT = 0;
        }
    }
    pub(crate) fn resp_count() -> usize {
        unsafe { RESP_COUNT }
    }
    pub(crate) fn resp_status(i: usize) -> u16 {
        unsafe { RESP_STATUS[i] }
    }
    pub(crate) fn resp_eof(i: usize) -> bool {
        unsafe { RESP_EOF[i] }
    }
    #[allow(static_mut_refs)]
    pub(crate) fn bad_headers() -> &'static [(String, String)] {
        unsafe { BAD_HEADERS.as_ref().map(|v| v.as_slice()).unwrap_or(&[]) }
    }
    #[allow(static_mut_refs)]
    pub(crate) fn resp_last() -> Option<&'static ResponseHeaders> {
        unsafe { RESP_LAST.as_ref() }
    }

    /// The mock HTTP stream.  It is meant to live in the harness's stack frame and be handed to the code
    /// under test as `Box<dyn Stream>` through `verif_env::stack_box` (heap objects - and in particular
    /// vtable pointers read back from them - are not constant-folded by symex, which makes every virtual
    /// call fan out over all implementations of the trait).  Deallocation is stubbed out in such harnesses.
    pub(crate) struct MockStream {
        pub req: RequestHeaders,
        pub client: IpAddr,
    }
    pub(crate) struct MockRespond;
    pub(crate) struct MockResponded;
    pub(crate) struct MockSink;
    pub(crate) struct MockDropSink;
    pub(crate) struct MockSource;

    pub(crate) fn request(method: http::Method, uri: &'static str) -> RequestHeaders {
        http::Request::builder().method(method).uri(http::Uri::from_static(uri)).body(()).unwrap().into_parts().0
    }

    pub(crate) fn new_stream(req: RequestHeaders) -> std::mem::ManuallyDrop<MockStream> {
        std::mem::ManuallyDrop::new(MockStream { req, client: IpAddr::from([198, 51, 100, 7]) })
    }

    impl http_codec::Stream for MockStream {
        fn id(&self) -> log_utils::IdChain<u64> {
            log_utils::IdChain::empty()
        }
        fn request(&self) -> &dyn http_codec::PendingRequest {
            self
        }
        fn split(self: Box<Self>) -> (Box<dyn http_codec::PendingRequest>, Box<dyn http_codec::PendingRespond>) {
            unsafe {
                SPLIT_COUNT += 1;
            }
            let raw = Box::into_raw(self);
            (unsafe { Box::from_raw(raw) }, Box::new(MockRespond))
        }
    }

    impl http_codec::PendingRequest for MockStream {
        fn id(&self) -> log_utils::IdChain<u64> {
            log_utils::IdChain::empty()
        }
        fn request(&self) -> &RequestHeaders {
            &self.req
        }
        fn client_address(&self) -> io::Result<IpAddr> {
            Ok(self.client)
        }
        fn finalize(self: Box<Self>) -> Box<dyn pipe::Source> {
            let _ = Box::into_raw(self);
            Box::new(MockSource)
        }
    }

    impl http_codec::PendingRespond for MockRespond {
        fn id(&self) -> log_utils::IdChain<u64> {
            log_utils::IdChain::empty()
        }
        fn send_intermediate_response(&self, _: ResponseHeaders) -> io::Result<()> {
            unsafe {
                INTERIM_COUNT += 1;
            }
            Ok(())
        }
        #[allow(static_mut_refs)]
        fn send_response(self: Box<Self>, response: ResponseHeaders, eof: bool) -> io::Result<Box<dyn http_codec::RespondedStreamSink>> {
            unsafe {
                if RESP_COUNT < 4 {
                    RESP_STATUS[RESP_COUNT] = response.status.as_u16();
                    RESP_EOF[RESP_COUNT] = eof;
                }
                RESP_COUNT += 1;
                let old = RESP_LAST.replace(response);
                core::mem::forget(old);
            }
            Ok(Box::new(MockResponded))
        }
        fn send_bad_response(self: Box<Self>, status: http::StatusCode, extra_headers: Vec<(String, String)>) -> io::Result<()> {
            Self::record_bad(status, extra_headers);
            Ok(())
        }
    }

    impl MockRespond {
        /// what `send_bad_response` would have put on the wire, recorded without building an `http::Response`
        /// (HeaderMap insertion does not get through symex in useful time)
        #[allow(static_mut_refs)]
        fn record_bad(status: http::StatusCode, extra_headers: Vec<(String, String)>) {
            unsafe {
                if RESP_COUNT < 4 {
                    RESP_STATUS[RESP_COUNT] = status.as_u16();
                    RESP_EOF[RESP_COUNT] = true;
                }
                RESP_COUNT += 1;
                let old = BAD_HEADERS.replace(extra_headers);
                std::mem::forget(old);
            }
        }
    }

    impl http_codec::RespondedStreamSink for MockResponded {
        fn into_pipe_sink(self: Box<Self>) -> Box<dyn pipe::Sink> {
            Box::new(MockSink)
        }
        fn into_datagram_sink(self: Box<Self>) -> Box<dyn http_codec::DroppingSink> {
            Box::new(MockDropSink)
        }
    }

    impl http_codec::DroppingSink for MockDropSink {
        fn write(&mut self, _data: Bytes) -> io::Result<datagram_pipe::SendStatus> {
            Ok(datagram_pipe::SendStatus::Sent)
        }
    }

    #[async_trait::async_trait]
    impl pipe::Sink for MockSink {
        fn id(&self) -> log_utils::IdChain<u64> {
            log_utils::IdChain::empty()
        }
        fn write(&mut self, _data: Bytes) -> io::Result<Bytes> {
            Ok(Bytes::new())
        }
        fn eof(&mut self) -> io::Result<()> {
            Ok(())
        }
        async fn wait_writable(&mut self) -> io::Result<()> {
            Ok(())
        }
    }

    #[async_trait::async_trait]
    impl pipe::Source for MockSource {
        fn id(&self) -> log_utils::IdChain<u64> {
            log_utils::IdChain::empty()
        }
        async fn read(&mut self) -> io::Result<pipe::Data> {
            Ok(pipe::Data::Eof)
        }
        fn consume(&mut self, _size: usize) -> io::Result<()> {
            Ok(())
        }
    }
}

// ---------------------------------------------------------------------------------------------
// Scripted in-memory transport (tokio AsyncRead + AsyncWrite): serves a fixed reply script in segments
// of at most `seg` bytes and records everything written.  Never pending; EOF after the script.
// ---------------------------------------------------------------------------------------------
pub(crate) struct ScriptedIo<const NR: usize, const NW: usize> {
    pub script: [u8; NR],
    pub script_len: usize,
    pub rpos: usize,
    pub seg: usize,
    pub written: [u8; NW],
    pub wlen: usize,
    pub write_calls: usize,
}

impl<const NR: usize, const NW: usize> ScriptedIo<NR, NW> {
    pub(crate) fn new(script: [u8; NR], script_len: usize, seg: usize) -> Self {
        Self { script, script_len, rpos: 0, seg, written: [0; NW], wlen: 0, write_calls: 0 }
    }
}

impl<const NR: usize, const NW: usize> tokio::io::AsyncRead for ScriptedIo<NR, NW> {
    fn poll_read(self: Pin<&mut Self>, _cx: &mut Context<'_>, buf: &mut tokio::io::ReadBuf<'_>) -> Poll<std::io::Result<()>> {
        let me = self.get_mut();
        let mut n = me.script_len - me.rpos;
        if n > me.seg {
            n = me.seg;
        }
        if n > buf.remaining() {
            n = buf.remaining();
        }
        let mut i = 0;
        while i < n {
            buf.put_slice(&[me.script[me.rpos + i]]);
            i += 1;
        }
        me.rpos += n;
        Poll::Ready(Ok(()))
    }
}

impl<const NR: usize, const NW: usize> tokio::io::AsyncWrite for ScriptedIo<NR, NW> {
    fn poll_write(self: Pin<&mut Self>, _cx: &mut Context<'_>, data: &[u8]) -> Poll<std::io::Result<usize>> {
        let me = self.get_mut();
        me.write_calls += 1;
        let mut i = 0;
        while i < data.len() {
            if me.wlen < NW {
                me.written[me.wlen] = data[i];
            }
            me.wlen += 1;
            i += 1;
        }
        Poll::Ready(Ok(data.len()))
    }
    fn poll_flush(self: Pin<&mut Self>, _cx: &mut Context<'_>) -> Poll<std::io::Result<()>> {
        Poll::Ready(Ok(()))
    }
    fn poll_shutdown(self: Pin<&mut Self>, _cx: &mut Context<'_>) -> Poll<std::io::Result<()>> {
        Poll::Ready(Ok(()))
    }
}

/// Replacement for `core::str::from_utf8` in harnesses whose strings are ASCII constants chosen by the
/// harness: accepts without scanning (`run_utf8_validation`'s alignment-dependent fast path explodes in symex).
pub(crate) fn from_utf8_accept(v: &[u8]) -> Result<&str, core::str::Utf8Error> {
    Ok(unsafe { core::str::from_utf8_unchecked(v) })
}

/// A `Box<T>` that points into the caller's stack frame (see `mock::MockStream`).  Only for harnesses that stub
/// `<Global as Allocator>::deallocate` (STUB "nofree"): the box is "freed" by the code under test.
pub(crate) fn stack_box<T>(slot: &mut std::mem::ManuallyDrop<T>) -> Box<T> {
    if native_replay() {
        // a native replay has a real allocator and no `nofree` stub: hand over a real heap box
        return Box::new(unsafe { std::mem::ManuallyDrop::take(slot) });
    }
    unsafe { Box::from_raw(&mut **slot as *mut T) }
}

/// A `Vec<u8>` whose buffer is the caller's stack array (see `stack_box`); a real copy in a native replay.
pub(crate) fn stack_vec<const N: usize>(slot: &mut std::mem::ManuallyDrop<[u8; N]>) -> Vec<u8> {
    if native_replay() {
        return slot.to_vec();
    }
    unsafe { Vec::from_raw_parts(slot.as_mut_ptr(), N, N) }
}

/// Set by the replay runner (bin/check inserts the call into the generated playback test): stubs are not applied
/// in a native replay, so fabricated stack-resident boxes must become real heap objects there.
static mut NATIVE_REPLAY: bool = false;
pub(crate) fn set_native_replay() {
    unsafe {
        NATIVE_REPLAY = true;
    }
}
pub(crate) fn native_replay() -> bool {
    unsafe { NATIVE_REPLAY }
}

/// Replacement for `BytesMut::extend_from_slice` that grows the buffer by the slice's length without copying it: for
/// instances that examine only lengths and the bytes written before the call (the appended bytes stay unexamined).
pub(crate) fn bytesmut_extend_len_only(b: &mut bytes::BytesMut, extend: &[u8]) {
    let cnt = extend.len();
    b.reserve(cnt);
    unsafe { bytes::BufMut::advance_mut(b, cnt) };
}

/// A `Bytes` of `len` bytes whose contents are never read by the code under test (see `bytesmut_extend_len_only`):
/// in symex it is a slice header over a one-byte static - no 64 KiB object is created -, in a native replay a real
/// zero-filled buffer.
pub(crate) fn unread_bytes(len: usize) -> bytes::Bytes {
    static ONE: [u8; 1] = [0];
    if native_replay() {
        return bytes::Bytes::from(vec![0u8; len]);
    }
    bytes::Bytes::from_static(unsafe { std::slice::from_raw_parts(ONE.as_ptr(), len) })
}

/// Replacement for `alloc::boxed::box_new_uninit` (what `Box::new` calls in Kani's toolchain): a bump allocator over a static array of
/// 64 words (64 = CBMC's default field-sensitivity bound), so that boxed values - async_trait futures above all - are
/// constant-folded like stack objects.  Only for harnesses that also stub deallocation (`nofree`); alignment <= 8.
static mut ARENA: [u64; 64] = [0; 64];
static mut ARENA_USED: usize = 0;
pub(crate) fn arena_box_new_uninit(layout: std::alloc::Layout) -> *mut u8 {
    unsafe { arena_alloc(layout.size(), layout.align()) }
}
unsafe fn arena_alloc(size: usize, align: usize) -> *mut u8 {
    if native_replay() {
        return std::alloc::alloc(std::alloc::Layout::from_size_align_unchecked(size.max(1), align));
    }
    assert!(align <= 8, "verif arena: alignment");
    let words = (size + 7) / 8;
    assert!(ARENA_USED + words <= 64, "verif arena: exhausted");
    let p = (std::ptr::addr_of_mut!(ARENA) as *mut u64).add(ARENA_USED) as *mut u8;
    ARENA_USED += words;
    p
}

/// No-op replacement for `<Global as Allocator>::deallocate`: nothing is ever freed in harnesses that use
/// stack-resident boxes; use-after-free and leaks are outside every claim.
pub(crate) unsafe fn global_dealloc_noop(_g: &std::alloc::Global, _ptr: std::ptr::NonNull<u8>, _layout: std::alloc::Layout) {}

/// A pipe::Sink that accepts a harness-chosen prefix of every write and records what it accepted.
pub(crate) mod prefix_sink {
    use crate::{log_utils, pipe};
    use bytes::Bytes;
    use std::io;

    pub(crate) static mut ACCEPT: [usize; 4] = [0; 4]; // bytes accepted by the i-th write (clamped to what is offered)
    pub(crate) static mut WRITES: usize = 0;
    pub(crate) static mut OFFERED: [usize; 4] = [0; 4];
    pub(crate) static mut LOG: [u8; 32] = [0; 32];
    pub(crate) static mut LOG_LEN: usize = 0;
    pub(crate) static mut EOFS: usize = 0;
    pub(crate) static mut WAITS: usize = 0;
    pub(crate) static mut WRITE_AFTER_EOF: bool = false;

    pub(crate) fn reset(accept: [usize; 4]) {
        unsafe {
            ACCEPT = accept;
            WRITES = 0;
            LOG_LEN = 0;
            EOFS = 0;
            WAITS = 0;
            WRITE_AFTER_EOF = false;
        }
    }
    pub(crate) fn writes() -> usize {
        unsafe { WRITES }
    }
    pub(crate) fn offered(i: usize) -> usize {
        unsafe { OFFERED[i] }
    }
    pub(crate) fn log_len() -> usize {
        unsafe { LOG_LEN }
    }
    pub(crate) fn log(i: usize) -> u8 {
        unsafe { LOG[i] }
    }
    pub(crate) fn eofs() -> usize {
        unsafe { EOFS }
    }
    pub(crate) fn write_after_eof() -> bool {
        unsafe { WRITE_AFTER_EOF }
    }

    pub(crate) struct PrefixSink;

    #[async_trait::async_trait]
    impl pipe::Sink for PrefixSink {
        fn id(&self) -> log_utils::IdChain<u64> {
            log_utils::IdChain::empty()
        }
        fn write(&mut self, mut data: Bytes) -> io::Result<Bytes> {
            unsafe {
                if EOFS > 0 {
                    WRITE_AFTER_EOF = true;
                }
                let i = if WRITES < 4 { WRITES } else { 3 };
                OFFERED[i] = data.len();
                let mut n = ACCEPT[i];
                if n > data.len() {
                    n = data.len();
                }
                let mut k = 0;
                while k < n {
                    if LOG_LEN < 32 {
                        LOG[LOG_LEN] = data[k];
                    }
                    LOG_LEN += 1;
                    k += 1;
                }
                WRITES += 1;
                Ok(data.split_off(n))
            }
        }
        fn eof(&mut self) -> io::Result<()> {
            unsafe {
                EOFS += 1;
            }
            Ok(())
        }
        async fn wait_writable(&mut self) -> io::Result<()> {
            unsafe {
                WAITS += 1;
            }
            Ok(())
        }
    }
}

// ---------------------------------------------------------------------------------------------
// Progress counter (cut K12)
// ---------------------------------------------------------------------------------------------
pub(crate) static mut TICKS: usize = 0;
pub(crate) static mut TICK_LIMIT: usize = usize::MAX;
pub(crate) fn tick() {
    unsafe {
        TICKS += 1;
        assert!(TICKS <= TICK_LIMIT, "C08.progress: Http1Codec::listen keeps iterating without reading from the transport (busy loop on an incomplete request head)");
    }
}
pub(crate) fn set_tick_limit(n: usize) {
    unsafe {
        TICKS = 0;
        TICK_LIMIT = n;
    }
}

impl<const NR: usize, const NW: usize> crate::net_utils::PeerAddr for ScriptedIo<NR, NW> {
    fn peer_addr(&self) -> std::io::Result<std::net::SocketAddr> {
        Ok(std::net::SocketAddr::from(([203, 0, 113, 9], 4711)))
    }
}

// ---------------------------------------------------------------------------------------------
// Virtual time (cuts K4, K5) and a scripted pipe::Source
// ---------------------------------------------------------------------------------------------
pub(crate) static mut VNOW: u64 = 1_000_000_000_000; // nanoseconds; non-decreasing, advanced by the harness
pub(crate) static mut TIMEOUT_FIRES: [bool; 8] = [false; 8]; // whether the i-th pending timeout elapses when polled
pub(crate) static mut TIMEOUT_POLLS: usize = 0;
pub(crate) static mut TIMEOUT_ADVANCE: [u64; 8] = [0; 8]; // how far past its deadline the i-th firing is observed (>= 1 ns)

#[derive(Copy, Clone, PartialEq, Eq, PartialOrd, Ord, Debug)]
pub(crate) struct Instant(pub u64);
impl Instant {
    pub(crate) fn now() -> Self {
        unsafe { Instant(VNOW) }
    }
}
impl std::ops::Sub<std::time::Duration> for Instant {
    type Output = Instant;
    fn sub(self, d: std::time::Duration) -> Instant {
        Instant(self.0 - d.as_nanos() as u64)
    }
}
impl std::ops::Add<std::time::Duration> for Instant {
    type Output = Instant;
    fn add(self, d: std::time::Duration) -> Instant {
        Instant(self.0 + d.as_nanos() as u64)
    }
}

pub(crate) struct Elapsed;

/// Stand-in for `tokio::time::timeout`: polls the inner future first; while it is pending the harness decides
/// (TIMEOUT_FIRES) whether the timer has fired.  A timer never fires early: when it fires the virtual clock is
/// moved to deadline + TIMEOUT_ADVANCE (>= 1 ns) unless it is already later.
pub(crate) struct VTimeout<F> {
    inner: F,
    deadline: u64,
}
pub(crate) fn vtimeout<F: Future>(d: std::time::Duration, inner: F) -> VTimeout<F> {
    VTimeout { inner, deadline: unsafe { VNOW } + d.as_nanos() as u64 }
}
impl<F: Future + Unpin> Future for VTimeout<F> {
    type Output = Result<F::Output, Elapsed>;
    fn poll(mut self: Pin<&mut Self>, cx: &mut Context<'_>) -> Poll<Self::Output> {
        if let Poll::Ready(x) = Pin::new(&mut self.inner).poll(cx) {
            return Poll::Ready(Ok(x));
        }
        unsafe {
            let i = if TIMEOUT_POLLS < 8 { TIMEOUT_POLLS } else { 7 };
            TIMEOUT_POLLS += 1;
            if TIMEOUT_FIRES[i] {
                let at = self.deadline + if TIMEOUT_ADVANCE[i] == 0 { 1 } else { TIMEOUT_ADVANCE[i] };
                if VNOW < at {
                    VNOW = at;
                }
                return Poll::Ready(Err(Elapsed));
            }
        }
        Poll::Pending
    }
}

pub(crate) mod script_source {
    use crate::{log_utils, pipe};
    use bytes::Bytes;
    use std::io;

    pub(crate) static mut CONSUMED: usize = 0;
    pub(crate) static mut CONSUME_CALLS: usize = 0;
    pub(crate) static mut READS: usize = 0;
    pub(crate) static mut METRIC_BYTES: usize = 0;

    pub(crate) fn reset() {
        unsafe {
            CONSUMED = 0;
            CONSUME_CALLS = 0;
            READS = 0;
            METRIC_BYTES = 0;
        }
    }
    pub(crate) fn consumed() -> usize {
        unsafe { CONSUMED }
    }
    pub(crate) fn reads() -> usize {
        unsafe { READS }
    }
    pub(crate) fn metric_bytes() -> usize {
        unsafe { METRIC_BYTES }
    }
    pub(crate) fn count_metric(_d: pipe::SimplexDirection, n: usize) {
        unsafe {
            METRIC_BYTES += n;
        }
    }

    /// Delivers `chunks[0]`, `chunks[1]` (skipping empty ones) and then Eof; never pending.
    pub(crate) struct ScriptSource {
        pub chunks: [&'static [u8]; 2],
        pub idx: usize,
    }

    #[async_trait::async_trait]
    impl pipe::Source for ScriptSource {
        fn id(&self) -> log_utils::IdChain<u64> {
            log_utils::IdChain::empty()
        }
        async fn read(&mut self) -> io::Result<pipe::Data> {
            unsafe {
                READS += 1;
            }
            while self.idx < 2 && self.chunks[self.idx].is_empty() {
                self.idx += 1;
            }
            if self.idx < 2 {
                let c = self.chunks[self.idx];
                self.idx += 1;
                Ok(pipe::Data::Chunk(Bytes::from_static(c)))
            } else {
                Ok(pipe::Data::Eof)
            }
        }
        fn consume(&mut self, size: usize) -> io::Result<()> {
            unsafe {
                CONSUMED += size;
                CONSUME_CALLS += 1;
            }
            Ok(())
        }
    }
}

/// Naive replacements for core's word-at-a-time byte searches: their fast paths depend on the (symbolic) alignment
/// of the haystack pointer, which makes symex explore every alignment.
pub(crate) fn memrchr_naive(x: u8, text: &[u8]) -> Option<usize> {
    let mut i = text.len();
    while i > 0 {
        i -= 1;
        if text[i] == x {
            return Some(i);
        }
    }
    None
}
pub(crate) fn memchr_naive(x: u8, text: &[u8]) -> Option<usize> {
    let mut i = 0;
    while i < text.len() {
        if text[i] == x {
            return Some(i);
        }
        i += 1;
    }
    None
}

/// Replacement for `alloc::fmt::format` that keeps the text: formats through `core::fmt::write` into a fixed
/// 96-byte buffer (no growing heap String, which is what makes the real one expensive) and copies the result.
pub(crate) fn fmt_format_bounded(args: core::fmt::Arguments<'_>) -> String {
    struct Sink {
        buf: [u8; 96],
        len: usize,
    }
    impl core::fmt::Write for Sink {
        fn write_str(&mut self, s: &str) -> core::fmt::Result {
            let b = s.as_bytes();
            let mut i = 0;
            while i < b.len() {
                if self.len < 96 {
                    self.buf[self.len] = b[i];
                    self.len += 1;
                }
                i += 1;
            }
            Ok(())
        }
    }
    let mut s = Sink { buf: [0; 96], len: 0 };
    let _ = core::fmt::write(&mut s, args);
    let mut v = Vec::with_capacity(96);
    let mut i = 0;
    while i < s.len {
        v.push(s.buf[i]);
        i += 1;
    }
    unsafe { String::from_utf8_unchecked(v) }
}

/// Cut K7: stand-ins for the resolver and for the outbound connect attempt.
pub(crate) mod netstub {
    use std::io;
    use std::net::SocketAddr;

    pub(crate) static mut RESOLVED: [Option<SocketAddr>; 2] = [None, None];
    pub(crate) static mut RESOLVE_CALLS: usize = 0;
    pub(crate) static mut RESOLVE_FAILS: bool = false;
    pub(crate) static mut CONNECT_CALLS: usize = 0;
    pub(crate) static mut CONNECTED_TO: Option<SocketAddr> = None;

    pub(crate) fn reset(list: [Option<SocketAddr>; 2], fails: bool) {
        unsafe {
            RESOLVED = list;
            RESOLVE_FAILS = fails;
            RESOLVE_CALLS = 0;
            CONNECT_CALLS = 0;
            CONNECTED_TO = None;
        }
    }
    pub(crate) fn connect_calls() -> usize {
        unsafe { CONNECT_CALLS }
    }
    pub(crate) fn connected_to() -> Option<SocketAddr> {
        unsafe { CONNECTED_TO }
    }
    pub(crate) fn resolve_calls() -> usize {
        unsafe { RESOLVE_CALLS }
    }

    pub(crate) struct Addrs {
        list: [Option<SocketAddr>; 2],
        i: usize,
    }
    impl Iterator for Addrs {
        type Item = SocketAddr;
        fn next(&mut self) -> Option<SocketAddr> {
            while self.i < 2 {
                let x = self.list[self.i];
                self.i += 1;
                if x.is_some() {
                    return x;
                }
            }
            None
        }
    }

    pub(crate) fn lookup_host() -> io::Result<Addrs> {
        unsafe {
            RESOLVE_CALLS += 1;
            if RESOLVE_FAILS {
                return Err(io::Error::from(io::ErrorKind::NotFound));
            }
            Ok(Addrs { list: RESOLVED, i: 0 })
        }
    }

    pub(crate) fn tcp_connect(
        peer: SocketAddr,
    ) -> io::Result<(Box<dyn crate::pipe::Source>, Box<dyn crate::pipe::Sink>)> {
        unsafe {
            CONNECT_CALLS += 1;
            CONNECTED_TO = Some(peer);
        }
        Err(io::Error::from(io::ErrorKind::ConnectionRefused))
    }
}

/// No-op replacement for dropping an `Arc<core::Context>`: the drop glue of `Context` reaches tokio's runtime types
/// (which the Kani compiler cannot handle); fabricated contexts are never freed anyway.
pub(crate) fn arc_ctx_drop_noop(_a: &mut std::sync::Arc<crate::core::Context>) {}
