//! C10 — classification of connect errors.
//! @encodes tcp_forwarder::io_to_connection_error
use super::*;

// @harness tier=quick core=yes bound="every raw OS error code (i32) and the TimedOut / ConnectionRefused kinds"
// @desc ENETUNREACH / EHOSTUNREACH -> HostUnreachable (301), a timed-out connect -> Timeout (302), everything else -> Io (300)
// @encodes tcp_forwarder::io_to_connection_error
#[kani::proof]
#[kani::unwind(4)]
fn c10_io_error_classification() {
    let code: i32 = kani::any();
    let from_os: bool = kani::any();
    let timed_out: bool = kani::any();
    let e = if from_os {
        io::Error::from_raw_os_error(code)
    } else if timed_out {
        io::Error::from(ErrorKind::TimedOut)
    } else {
        io::Error::from(ErrorKind::ConnectionRefused)
    };
    let r = io_to_connection_error(e);
    if from_os && (code == libc::ENETUNREACH || code == libc::EHOSTUNREACH) {
        assert!(matches!(r, tunnel::ConnectionError::HostUnreachable), "C10.ioerr.unreachable: ENETUNREACH/EHOSTUNREACH must be reported as unreachable (301)");
    } else if !from_os && timed_out {
        assert!(matches!(r, tunnel::ConnectionError::Timeout), "C10.ioerr.timeout: a timed-out connect must be reported as timed out (302)");
    } else if from_os && code == libc::ETIMEDOUT {
        assert!(matches!(r, tunnel::ConnectionError::Timeout), "C10.ioerr.etimedout: ETIMEDOUT must be reported as timed out (302)");
    } else if from_os && code == libc::ECONNREFUSED {
        assert!(matches!(r, tunnel::ConnectionError::Io(_)), "C10.ioerr.refused: a refused connection is a generic failure (300)");
    }
    kani::cover!(matches!(r, tunnel::ConnectionError::HostUnreachable), "C10.cover.unreachable");
    kani::cover!(matches!(r, tunnel::ConnectionError::Timeout), "C10.cover.timeout");
    kani::cover!(matches!(r, tunnel::ConnectionError::Io(_)), "C10.cover.io");
    std::mem::forget(r);
}
