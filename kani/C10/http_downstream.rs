//! C10 — every tunnel request gets exactly one, correctly coded, final response.
//! @encodes http_downstream::PendingRequest::promote_to_next_state
//! @encodes http_downstream::DatagramMultiplexer::promote_to_next_state
//! @encodes http_downstream::TcpConnection::promote_to_next_state / destination
//! @encodes http_downstream::fail_request_with_error / tunnel_error_to_status_code / tunnel_error_to_warn_header
//! @encodes http_codec::PendingRespond::send_ok_response / send_bad_response (default methods)
//! @cut K1
//! @assume the HTTP stream is a mock of http_codec::Stream that records every send_response call; methods and authorities are enumerated as concrete instances (real http::Uri parsing)
//! @assume core::str::from_utf8 is stubbed to accept (all strings in these harnesses are ASCII constants; http's ByteStr re-validates them in debug builds)
//! @assume the mock stream and the request objects under test live in the harness's stack frame and deallocation is a no-op (use-after-free / leaks are outside the claim)
//! @assume the mock overrides PendingRespond::send_bad_response to record (status, extra headers) instead of building an http::Response (the default method, shared by the real codecs, is a 6-line builder loop that is not examined)
//! @assume alloc::fmt::format is replaced by verif_env::fmt_format_bounded in the failure-table harnesses: the same core::fmt machinery writing into a fixed 96-byte buffer instead of a growing String (the text is preserved); the Io row (io::Error drop glue) is in the thorough tier only
//! @assume an authority is reserved iff it is exactly `_check`, `_udp2` or `_icmp` (no port, case-sensitive), as PROTOCOL.md spells them
use super::*;
use crate::downstream::{PendingRequest as _, PendingTcpConnectRequest as _, PendingDemultiplexedRequest};
use crate::verif_env::mock;

use crate::verif_env::stack_box;
use std::mem::ManuallyDrop;

/// Stack-resident mock stream + the request object under test (see verif_env::mock::MockStream).
macro_rules! mk_pending {
    ($ms:ident, $pr:ident, $method:expr, $uri:expr) => {{
        mock::reset();
        $ms = mock::new_stream(mock::request($method, $uri));
        let stream: Box<dyn http_codec::Stream> = stack_box::<mock::MockStream>(&mut $ms);
        $pr = ManuallyDrop::new(PendingRequest { stream, id: log_utils::IdChain::from(log_utils::IdItem::new(log_utils::CONNECTION_ID_FMT, 1u64)) });
        stack_box(&mut $pr)
    }};
}

/// KIND: 0 = `_check`, 1 = `_udp2`, 2 = `_icmp`, 3 = not reserved with port, 4 = not reserved without port,
/// 5 = IP literal with port.   CONNECT: the method is CONNECT (else GET/POST chosen symbolically).
fn dispatch<const KIND: usize, const CONNECT: bool>(uri: &'static str) {
    let method = if CONNECT { http::Method::CONNECT } else { http::Method::GET };
    let (mut ms, mut pr);
    let p = mk_pending!(ms, pr, method, uri);
    let r = p.promote_to_next_state();
    let reserved = KIND <= 2;
    match r {
        Err(_) => assert!(false, "C10.dispatch.err: dispatch of a well-formed request failed"),
        Ok(None) => {
            assert!(reserved, "C10.dispatch.swallowed: a request for an ordinary host was answered locally instead of being connected");
            assert!(mock::resp_count() == 1, "C10.dispatch.one_response: a locally answered request must receive exactly one response");
            if CONNECT {
                assert!(KIND == 0, "C10.dispatch.mux_swallowed: CONNECT _udp2/_icmp must open the datagram multiplexer");
                assert!(mock::resp_status(0) == 200 && mock::resp_eof(0), "C10.dispatch.health: CONNECT _check must be answered 200 with end of stream");
            } else {
                assert!(mock::resp_status(0) == 502, "C10.dispatch.reserved_method: a non-CONNECT request to a reserved authority must be refused with 502");
            }
            kani::cover!(true, "C10.cover.dispatch_local");
        }
        Ok(Some(PendingDemultiplexedRequest::DatagramMultiplexer(m))) => {
            assert!(CONNECT && (KIND == 1 || KIND == 2), "C10.dispatch.mux_wrong: only CONNECT _udp2 / CONNECT _icmp open the datagram multiplexer");
            assert!(mock::resp_count() == 0, "C10.dispatch.early_response: a response was sent before the multiplexer was accepted");
            let h = m.promote_to_next_state();
            match h {
                Ok(downstream::DatagramPipeHalves::Udp(..)) => assert!(KIND == 1, "C10.dispatch.mux_kind: _icmp served by the UDP codec"),
                Ok(downstream::DatagramPipeHalves::Icmp(..)) => assert!(KIND == 2, "C10.dispatch.mux_kind: _udp2 served by the ICMP codec"),
                Err(_) => assert!(false, "C10.dispatch.mux_err: accepting the multiplexer failed"),
            }
            assert!(mock::resp_count() == 1 && mock::resp_status(0) == 200 && !mock::resp_eof(0), "C10.dispatch.mux_200: an accepted multiplexer gets exactly one 200 that keeps the stream open");
            kani::cover!(true, "C10.cover.dispatch_mux");
            std::mem::forget(h);
        }
        Ok(Some(PendingDemultiplexedRequest::TcpConnect(t))) => {
            assert!(!reserved, "C10.dispatch.reserved_as_host: a reserved authority is treated as a host name to connect to");
            assert!(mock::resp_count() == 0, "C10.dispatch.early_response: a response was sent before the connection attempt");
            let d = t.destination();
            match (&d, KIND) {
                (Ok(net_utils::TcpDestination::HostName((h, port))), 3) => {
                    assert!(*port == 8443 && h.as_str() == "example.org", "C10.dest.hostname: host name / port not those of the authority");
                }
                (Ok(net_utils::TcpDestination::HostName((h, port))), 4) => {
                    assert!(!CONNECT, "C10.dest.connect_no_port: CONNECT without a port must be refused");
                    assert!(*port == 80 && h.as_str() == "example.org", "C10.dest.default_port: a plain HTTP request without port goes to port 80 of the named host");
                }
                (Err(_), 4) => assert!(CONNECT, "C10.dest.plain_no_port: a plain HTTP request without port must default to port 80"),
                (Ok(net_utils::TcpDestination::Address(a)), 5) => {
                    assert!(a.port() == 8080 && a.ip() == std::net::IpAddr::from([192, 0, 2, 9]), "C10.dest.literal: literal destination not the one of the authority");
                }
                _ => assert!(false, "C10.dest.kind: destination of the wrong kind for this authority"),
            }
            kani::cover!(d.is_ok(), "C10.cover.dispatch_tcp_ok");
            kani::cover!(d.is_err(), "C10.cover.dispatch_tcp_refused");
            std::mem::forget(d);
            std::mem::forget(t);
        }
    }
}

/*@gen
{"name": "c10_dispatch_{0}_{1}", "call": "dispatch::<{2}, {3}>(\"{4}\")", "unwind": 40, "stubs": ["fmt", "utf8", "nofree", "memchr"], "core": true,
 "bound": "request {1} (CONNECT, or GET) with authority '{4}'",
 "desc": "dispatch on authority and method: reserved x CONNECT -> health 200+eof / datagram multiplexer + one 200; reserved x other -> one 502; everything else -> TCP connect with the right destination (or refusal of CONNECT without port); never zero or two responses",
 "encodes": ["http_downstream::PendingRequest::promote_to_next_state", "http_downstream::DatagramMultiplexer::promote_to_next_state", "http_downstream::TcpConnection::destination"],
 "quick": "[(n, m, k, 'true' if m == 'connect' else 'false', u) for (n, k, u) in [('check', 0, '_check'), ('udp2', 1, '_udp2'), ('icmp', 2, '_icmp'), ('literal', 5, '192.0.2.9:8080'), ('host_port', 3, 'example.org:8443'), ('host_noport', 4, 'example.org')] for m in ('connect', 'other') if not (m == 'other' and k in (3, 5))]",
 "thorough": "[]"}
@*/

/// Look-alikes of the reserved names are ordinary destinations (or refused for lack of a port), never answered as reserved.
fn lookalike(uri: &'static str) {
    let (mut ms, mut pr);
    let p = mk_pending!(ms, pr, http::Method::CONNECT, uri);
    let r = p.promote_to_next_state();
    match r {
        Ok(Some(PendingDemultiplexedRequest::TcpConnect(t))) => {
            assert!(mock::resp_count() == 0, "C10.lookalike.response: a look-alike of a reserved name was answered locally");
            std::mem::forget(t);
        }
        Ok(Some(PendingDemultiplexedRequest::DatagramMultiplexer(m))) => {
            // if an implementation chooses to treat `_udp2:53` as reserved it must still answer it exactly once
            let h = m.promote_to_next_state();
            assert!(h.is_ok() && mock::resp_count() == 1, "C10.lookalike.mux: a multiplexer request accepted under a look-alike name did not get its response");
            std::mem::forget(h);
        }
        Ok(None) => assert!(mock::resp_count() == 1, "C10.lookalike.one_response: a locally answered request must receive exactly one response"),
        Err(_) => assert!(mock::resp_count() <= 1, "C10.lookalike.err"),
    }
}

/*@gen
{"name": "c10_lookalike_{0}", "call": "lookalike(\"{1}\")", "unwind": 40, "stubs": ["fmt", "utf8", "nofree", "memchr"], "core": false,
 "bound": "CONNECT with authority '{1}'",
 "desc": "authorities that differ from the reserved names by case, suffix or port never lose their response (no panic, no missing response)",
 "encodes": ["http_downstream::PendingRequest::promote_to_next_state"],
 "quick": "[('upper', '_CHECK'), ('udp2_port', '_udp2:53'), ('icmp_port', '_icmp:7'), ('check_port', '_check:443'), ('udp', '_udp'), ('sub', 'x._icmp:1')]",
 "thorough": "[('checker', '_checker:443'), ('udp22', '_udp22')]"}
@*/

/// The failure table: status and headers of the single response for every ConnectionError.
fn failure<const WHICH: usize>() {
    let err = match WHICH {
        0 => tunnel::ConnectionError::Io(std::io::Error::from(std::io::ErrorKind::ConnectionRefused)),
        1 => tunnel::ConnectionError::Authentication(String::new()),
        2 => tunnel::ConnectionError::Timeout,
        3 => tunnel::ConnectionError::HostUnreachable,
        4 => tunnel::ConnectionError::DnsNonroutable,
        5 => tunnel::ConnectionError::DnsLoopback,
        _ => tunnel::ConnectionError::Other(String::new()),
    };
    let want_status: u16 = if WHICH == 1 { 407 } else { 502 };
    let want_code: &[u8] = match WHICH {
        0 | 6 => b"300",
        2 => b"302",
        3 => b"301",
        4 => b"310",
        5 => b"311",
        _ => b"",
    };
    mock::reset();
    let mut ms = mock::new_stream(mock::request(http::Method::CONNECT, "host.example:443"));
    let stream: Box<dyn http_codec::Stream> = stack_box::<mock::MockStream>(&mut ms);
    fail_request_with_error(stream, err);
    assert!(mock::resp_count() == 1, "C10.fail.one_response: a failed request must receive exactly one response");
    assert!(mock::resp_status(0) == want_status, "C10.fail.status: 407 for an authentication failure, 502 for every connection failure");
    assert!(mock::resp_eof(0), "C10.fail.final: a failure response must end the stream");
    let hs = mock::bad_headers();
    let find = |name: &str| -> Option<&'static str> {
        let mut i = 0;
        while i < hs.len() {
            if hs[i].0.eq_ignore_ascii_case(name) {
                return Some(hs[i].1.as_str());
            }
            i += 1;
        }
        None
    };
    if WHICH == 1 {
        let v = find("proxy-authenticate");
        assert!(v.is_some() && v.unwrap().as_bytes().starts_with(b"Basic "), "C10.fail.challenge: 407 must carry a Basic challenge");
        assert!(find("x-warning").is_none(), "C10.fail.challenge_only: 407 must not carry a connection warning");
    } else {
        let v = find("x-warning");
        assert!(v.is_some() && v.unwrap().as_bytes().starts_with(want_code), "C10.fail.warning: X-Warning code is not the documented one for this failure");
        let dns = find("x-adguard-vpn-error");
        if WHICH == 4 || WHICH == 5 {
            assert!(dns.is_some() && dns.unwrap().as_bytes() == b"host.example:443", "C10.fail.hostname: 310/311 must name the offending host");
        } else {
            assert!(dns.is_none(), "C10.fail.hostname_spurious: host-name header on a failure that is not 310/311");
        }
    }
}

/*@gen
{"name": "c10_failure_response_{1}", "call": "failure::<{0}>()", "unwind": 100, "stubs": ["utf8", "nofree", "fmtb"], "core": true,
 "bound": "ConnectionError::{1} on a CONNECT host.example:443 request",
 "desc": "fail_request_with_error sends exactly one final response: 407 + Basic challenge for Authentication, 502 + the documented X-Warning code otherwise, host name echoed for 310/311",
 "encodes": ["http_downstream::fail_request_with_error", "http_downstream::tunnel_error_to_status_code", "http_downstream::tunnel_error_to_warn_header", "http_codec::PendingRespond::send_bad_response"],
 "quick": "[(1,'Authentication'),(6,'Other'),(2,'Timeout'),(3,'HostUnreachable'),(4,'DnsNonroutable'),(5,'DnsLoopback')]", "thorough": "[(0,'Io')]"}
@*/

// @harness tier=quick core=yes bound="CONNECT host.example:443 accepted (TcpConnection::promote_to_next_state)"
// @desc an established CONNECT gets exactly one 200 that keeps the stream open
// @encodes http_downstream::TcpConnection::promote_to_next_state
#[kani::proof]
#[kani::unwind(40)]
#[kani::stub(std::str::from_utf8, crate::verif_env::from_utf8_accept)]
#[kani::stub(<std::alloc::Global as std::alloc::Allocator>::deallocate, crate::verif_env::global_dealloc_noop)]
fn c10_connect_established_one_200() {
    mock::reset();
    let mut ms = mock::new_stream(mock::request(http::Method::CONNECT, "host.example:443"));
    let stream: Box<dyn http_codec::Stream> = stack_box::<mock::MockStream>(&mut ms);
    let mut tc = ManuallyDrop::new(TcpConnection { stream, id: log_utils::IdChain::empty() });
    let t = stack_box(&mut tc);
    let r = t.promote_to_next_state();
    assert!(r.is_ok(), "C10.established.err: promote failed");
    assert!(mock::resp_count() == 1 && mock::resp_status(0) == 200 && !mock::resp_eof(0), "C10.established.one_200: an established CONNECT gets exactly one 200 that keeps the stream open");
    std::mem::forget(r);
}
