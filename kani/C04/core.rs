//! C04 — wiring of the verdict: Core::evaluate_connection_rules on a fabricated context.
//! @encodes core::Core::evaluate_connection_rules
//! @cut K1
//! @assume the Context is fabricated: only `settings` is initialised (the function reads nothing else); log output is disabled (log::max_level() == Off)
use super::*;
use crate::rules::verif_c04::{any_ip, engine_on_stack, mk_rule, ref_evaluate, RefCidr, RefPat, RefRule};
use crate::rules::{Rule, RuleAction, RuleEvaluation, RulesConfig, RulesEngine};
use crate::verif_env::fmt_format_stub;
use std::mem::MaybeUninit;
use std::net::{IpAddr, Ipv4Addr, Ipv6Addr};

/// Fabricated `Context`: only `settings` is initialised.  Both the context and the settings live on the
/// caller's stack (see verif_env::StackArc).
macro_rules! fabricate_context {
    ($sa:ident, $ca:ident, $settings:expr) => {{
        $sa = std::mem::ManuallyDrop::new(crate::verif_env::StackArc::new($settings));
        $ca = std::mem::ManuallyDrop::new(crate::verif_env::StackArc::new(MaybeUninit::<Context>::uninit()));
        unsafe {
            std::ptr::write(std::ptr::addr_of_mut!((*$ca.data.as_mut_ptr()).settings), $sa.arc());
            std::mem::ManuallyDrop::new(std::mem::transmute::<Arc<MaybeUninit<Context>>, Arc<Context>>($ca.arc()))
        }
    }};
}
pub(crate) use fabricate_context;

fn verdict(ctx: &Arc<Context>, ip: Option<IpAddr>, random: Option<&[u8]>) -> bool {
    let id = log_utils::IdChain::from(log_utils::IdItem::new(log_utils::CLIENT_ID_FMT, 1u64));
    Core::evaluate_connection_rules(ctx, ip, random, &id).is_ok()
}

fn wiring<const RLEN: usize>(specs: &[(Option<&'static str>, Option<&'static str>, bool)], refs: &[RefRule]) {
    let rbuf: [u8; 34] = kani::any();
    let random: Option<&[u8]> = if RLEN == 99 { None } else { Some(&rbuf[..RLEN]) };
    let mut store: std::mem::ManuallyDrop<[Rule; 3]>;
    let engine = engine_on_stack!(store, specs);
    let mut sa;
    let mut ca;
    let ctx = fabricate_context!(sa, ca, crate::settings::verif_c04::settings_with_rules(Some(std::mem::ManuallyDrop::into_inner(engine))));
    let a: [u8; 4] = kani::any();
    let v4 = IpAddr::V4(Ipv4Addr::from(a));
    let mapped = IpAddr::V6(Ipv4Addr::from(a).to_ipv6_mapped());
    let admitted_v4 = verdict(&ctx, Some(v4), random);
    if let Some(want) = ref_evaluate(refs, &v4, random) {
        assert!(admitted_v4 == (want == RuleEvaluation::Allow), "C04.core.verdict: evaluate_connection_rules does not turn Deny into Err and Allow into Ok");
        kani::cover!(want == RuleEvaluation::Deny, "C04.cover.core_deny");
        kani::cover!(want == RuleEvaluation::Allow, "C04.cover.core_allow");
    }
    let admitted_mapped = verdict(&ctx, Some(mapped), random);
    assert!(admitted_mapped == admitted_v4, "C04.core.dual_stack: an IPv4 peer seen as ::ffff:a.b.c.d by a dual-stack listener gets a different verdict from the same peer seen as a.b.c.d");

}

// @harness tier=quick core=yes bound="rules [10.0.0.0/8 deny]; every IPv4 peer address a.b.c.d, seen as a.b.c.d and as ::ffff:a.b.c.d; no client random"
// @desc Deny -> Err, Allow -> Ok, and the verdict is that of the peer's actual address whether or not it arrives IPv4-mapped (dual-stack listener)
// @encodes core::Core::evaluate_connection_rules
#[kani::proof]
#[kani::unwind(40)]
#[kani::stub(alloc::fmt::format, fmt_format_stub)]
fn c04_core_wiring_cidr_deny() {
    wiring::<99>(
        &[(Some("10.0.0.0/8"), None, true)],
        &[RefRule { cidr: RefCidr::V4(0x0a000000, 8), pat: RefPat::Any, deny: true }],
    );
}

// @harness tier=quick core=yes bound="rules [192.168.1.0/24 allow; (any) deny] and a 32-byte symbolic client random; every IPv4 peer address, plain and IPv4-mapped"
// @desc allow-list by IPv4 CIDR followed by a catch-all deny: same verdict for a.b.c.d and ::ffff:a.b.c.d
// @encodes core::Core::evaluate_connection_rules
#[kani::proof]
#[kani::unwind(40)]
#[kani::stub(alloc::fmt::format, fmt_format_stub)]
fn c04_core_wiring_allowlist() {
    wiring::<32>(
        &[(Some("192.168.1.0/24"), None, false), (None, None, true)],
        &[
            RefRule { cidr: RefCidr::V4(0xc0a80100, 24), pat: RefPat::Any, deny: false },
            RefRule { cidr: RefCidr::Any, pat: RefPat::Any, deny: true },
        ],
    );
}

/// Every IPv6 peer: an IPv4-mapped one gets the verdict of the embedded IPv4 address, any other one is judged as the
/// IPv6 address it is (in particular it is not matched by IPv4 CIDRs, not even `::a.b.c.d`).
fn wiring_v6(specs: &[(Option<&'static str>, Option<&'static str>, bool)], refs: &[RefRule]) {
    let mut store: std::mem::ManuallyDrop<[Rule; 3]>;
    let engine = engine_on_stack!(store, specs);
    let mut sa;
    let mut ca;
    let ctx = fabricate_context!(sa, ca, crate::settings::verif_c04::settings_with_rules(Some(std::mem::ManuallyDrop::into_inner(engine))));
    let o: [u8; 16] = kani::any();
    let v6 = Ipv6Addr::from(o);
    let peer = IpAddr::V6(v6);
    let canonical = match v6.to_ipv4_mapped() {
        Some(v4) => IpAddr::V4(v4),
        None => peer,
    };
    let admitted = verdict(&ctx, Some(peer), None);
    if let Some(want) = ref_evaluate(refs, &canonical, None) {
        assert!(admitted == (want == RuleEvaluation::Allow), "C04.core.v6_peer: an IPv6 peer is not judged by its actual address (IPv4-mapped -> the IPv4 address, anything else -> the IPv6 address itself)");
        kani::cover!(want == RuleEvaluation::Deny, "C04.cover.core_v6_deny");
        kani::cover!(want == RuleEvaluation::Allow, "C04.cover.core_v6_allow");
    }
}

// @harness tier=quick core=yes bound="rules [10.0.0.0/8 allow; (any) deny]; every IPv6 peer address (2^128), no client random"
// @desc an IPv6 peer is matched by IPv4 CIDRs only when it is IPv4-mapped
// @encodes core::Core::evaluate_connection_rules
#[kani::proof]
#[kani::unwind(40)]
#[kani::stub(alloc::fmt::format, fmt_format_stub)]
fn c04_core_wiring_v6_peer_v4_rules() {
    wiring_v6(
        &[(Some("10.0.0.0/8"), None, false), (None, None, true)],
        &[
            RefRule { cidr: RefCidr::V4(0x0a000000, 8), pat: RefPat::Any, deny: false },
            RefRule { cidr: RefCidr::Any, pat: RefPat::Any, deny: true },
        ],
    );
}

// @harness tier=quick core=yes bound="rules [::1/128 deny; 2001:db8::/32 deny]; every IPv6 peer address (2^128), no client random"
// @desc IPv6 CIDR rules apply to the IPv6 peer address itself (loopback and low addresses included)
// @encodes core::Core::evaluate_connection_rules
#[kani::proof]
#[kani::unwind(40)]
#[kani::stub(alloc::fmt::format, fmt_format_stub)]
fn c04_core_wiring_v6_peer_v6_rules() {
    wiring_v6(
        &[(Some("::1/128"), None, true), (Some("2001:db8::/32"), None, true)],
        &[
            RefRule { cidr: RefCidr::V6(1, 128), pat: RefPat::Any, deny: true },
            RefRule { cidr: RefCidr::V6(0x20010db8_0000_0000_0000_0000_0000_0000, 32), pat: RefPat::Any, deny: true },
        ],
    );
}

// @harness tier=quick core=yes bound="no rules engine / no peer address; symbolic client random presence"
// @desc without an engine, or without a peer address, the connection is admitted (documented behaviour)
// @encodes core::Core::evaluate_connection_rules
#[kani::proof]
#[kani::unwind(40)]
#[kani::stub(alloc::fmt::format, fmt_format_stub)]
fn c04_core_wiring_no_engine() {
    let mut sa;
    let mut ca;
    let ctx = fabricate_context!(sa, ca, crate::settings::verif_c04::settings_with_rules(None));
    let a: [u8; 4] = kani::any();
    assert!(verdict(&ctx, Some(IpAddr::V4(Ipv4Addr::from(a))), None), "C04.core.no_engine: no rules file must mean allow");

}
