//! C04 helper: a `Settings` value with a chosen rules engine (fields are private to this module).
use super::*;

pub(crate) fn settings_with_rules(engine: Option<rules::RulesEngine>) -> Settings {
    let mut s = Settings::builder().settings;
    s.rules_engine = engine;
    s
}
