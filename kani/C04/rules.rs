//! C04 — connection filtering rules: Rule::matches and RulesEngine::evaluate against an independent evaluator.
//! @encodes rules::Rule::matches
//! @encodes rules::RulesEngine::evaluate
//! @encodes ipnet::IpNet::from_str / IpNet::contains and hex::decode (third-party, executed for real on the concrete spellings)
//! @assume rule lists are drawn from a pool of concrete field spellings (kani/C04/rules.rs POOL_*), the client address (all 2^32 / 2^128 values of the stated family) and the client random (all byte strings of the stated length, or absent) are symbolic
//! @assume no obligation where CONFIGURATION.md leaves the meaning open: prefix/mask of different lengths, a client random shorter than the mask, an IPv4 CIDR against an IPv4-mapped IPv6 address at Rule level (the dual-stack clause is checked at Core::evaluate_connection_rules)
use super::*;
use crate::verif_env::fmt_format_stub;
use std::net::{Ipv4Addr, Ipv6Addr};

#[derive(Clone, Copy)]
pub(crate) enum RefCidr {
    Any,
    V4(u32, u32),
    V6(u128, u32),
    Invalid,
}

#[derive(Clone, Copy)]
pub(crate) enum RefPat {
    Any,
    Prefix(&'static [u8]),
    Masked(&'static [u8], &'static [u8]),
    /// present but not hex: the rule can never match (and still "needs a client random")
    Invalid,
    /// present, meaning not fixed by the documentation: no obligation
    Unspecified,
}

#[derive(Clone, Copy)]
pub(crate) struct RefRule {
    pub cidr: RefCidr,
    pub pat: RefPat,
    pub deny: bool,
}

fn ref_cidr_contains(c: RefCidr, ip: &IpAddr) -> Option<bool> {
    match (c, ip) {
        (RefCidr::Any, _) => Some(true),
        (RefCidr::Invalid, _) => Some(false),
        (RefCidr::V4(net, bits), IpAddr::V4(a)) => {
            let x = u32::from_be_bytes(a.octets());
            Some(bits == 0 || (x >> (32 - bits)) == (net >> (32 - bits)))
        }
        (RefCidr::V6(net, bits), IpAddr::V6(a)) => {
            let x = u128::from_be_bytes(a.octets());
            Some(bits == 0 || (x >> (128 - bits)) == (net >> (128 - bits)))
        }
        (RefCidr::V4(..), IpAddr::V6(a)) => {
            // an IPv4-mapped peer: left to the caller's canonicalisation, no obligation here
            let o = a.octets();
            let mut hi_zero = true;
            let mut i = 0;
            while i < 10 {
                hi_zero = hi_zero && o[i] == 0;
                i += 1;
            }
            if hi_zero && o[10] == 0xff && o[11] == 0xff {
                None
            } else {
                Some(false)
            }
        }
        (RefCidr::V6(..), IpAddr::V4(_)) => Some(false),
    }
}

fn ref_pat_matches(p: RefPat, random: Option<&[u8]>) -> Option<bool> {
    match p {
        RefPat::Any => Some(true),
        RefPat::Unspecified => None,
        RefPat::Invalid => Some(false),
        RefPat::Prefix(pre) => match random {
            None => Some(false),
            Some(r) => {
                if r.len() < pre.len() {
                    return Some(false);
                }
                let mut ok = true;
                let mut i = 0;
                while i < pre.len() {
                    ok = ok && r[i] == pre[i];
                    i += 1;
                }
                Some(ok)
            }
        },
        RefPat::Masked(pre, mask) => match random {
            None => Some(false),
            Some(r) => {
                // CONFIGURATION.md: matches if (client_random & mask) == (prefix & mask); lengths equal by construction of the pool
                if r.len() < mask.len() {
                    return None;
                }
                let mut ok = true;
                let mut i = 0;
                while i < mask.len() {
                    ok = ok && (r[i] & mask[i]) == (pre[i] & mask[i]);
                    i += 1;
                }
                Some(ok)
            }
        },
    }
}

fn ref_rule_matches(r: &RefRule, ip: &IpAddr, random: Option<&[u8]>) -> Option<bool> {
    let c = ref_cidr_contains(r.cidr, ip);
    let p = ref_pat_matches(r.pat, random);
    match (c, p) {
        (Some(false), _) | (_, Some(false)) => Some(false),
        (Some(true), Some(true)) => Some(true),
        _ => None,
    }
}

/// CONFIGURATION.md "Rules Reference": in order, first match wins, default allow; a rule that needs a
/// client random when none is available makes the engine fail closed.
pub(crate) fn ref_evaluate(rules: &[RefRule], ip: &IpAddr, random: Option<&[u8]>) -> Option<RuleEvaluation> {
    if random.is_none() {
        let mut i = 0;
        while i < rules.len() {
            if !matches!(rules[i].pat, RefPat::Any) {
                return Some(RuleEvaluation::Deny);
            }
            i += 1;
        }
    }
    let mut i = 0;
    while i < rules.len() {
        match ref_rule_matches(&rules[i], ip, random) {
            None => return None,
            Some(true) => return Some(if rules[i].deny { RuleEvaluation::Deny } else { RuleEvaluation::Allow }),
            Some(false) => {}
        }
        i += 1;
    }
    Some(RuleEvaluation::Allow)
}

pub(crate) fn any_ip<const V6: bool>() -> IpAddr {
    if V6 {
        let o: [u8; 16] = kani::any();
        IpAddr::V6(Ipv6Addr::from(o))
    } else {
        let o: [u8; 4] = kani::any();
        IpAddr::V4(Ipv4Addr::from(o))
    }
}

/// A `String` whose buffer *is* the string literal (never dropped, never written): reads from it are
/// constant-folded by symex, whereas a heap copy made by `to_string()` is not.
pub(crate) fn static_string(s: &'static str) -> String {
    unsafe { String::from_raw_parts(s.as_ptr() as *mut u8, s.len(), s.len()) }
}

pub(crate) fn mk_rule(specs: &[(Option<&'static str>, Option<&'static str>, bool)], i: usize) -> Rule {
    if i < specs.len() {
        let (c, p, deny) = specs[i];
        Rule {
            cidr: c.map(static_string),
            client_random_prefix: p.map(static_string),
            action: if deny { RuleAction::Deny } else { RuleAction::Allow },
        }
    } else {
        Rule { cidr: None, client_random_prefix: None, action: RuleAction::Allow }
    }
}

/// A `RulesEngine` whose `Vec<Rule>` buffer is the caller's stack array (never dropped, not even when an assertion unwinds during a native replay): symex tracks
/// stack objects field by field, so the concrete spellings stay concrete.
macro_rules! engine_on_stack {
    ($store:ident, $specs:expr) => {{
        $store = std::mem::ManuallyDrop::new([mk_rule($specs, 0), mk_rule($specs, 1), mk_rule($specs, 2)]);
        let v = unsafe { Vec::from_raw_parts($store.as_mut_ptr(), $specs.len(), 3) };
        std::mem::ManuallyDrop::new(RulesEngine::from_config(RulesConfig { rule: v }))
    }};
}
pub(crate) use engine_on_stack;

/// RLEN == 99 encodes "client random absent".
fn check_list<const V6: bool, const RLEN: usize>(specs: &[(Option<&'static str>, Option<&'static str>, bool)], refs: &[RefRule]) {
    let ip = any_ip::<V6>();
    let rbuf: [u8; 34] = kani::any();
    let random: Option<&[u8]> = if RLEN == 99 { None } else { Some(&rbuf[..RLEN]) };
    assert!(specs.len() <= 3);
    let mut store: std::mem::ManuallyDrop<[Rule; 3]>;
    let engine = engine_on_stack!(store, specs);
    // every rule by itself
    let mut i = 0;
    while i < specs.len() {
        let got = engine.config().rule[i].matches(&ip, random);
        if let Some(want) = ref_rule_matches(&refs[i], &ip, random) {
            assert!(got == want, "C04.rule.matches: Rule::matches disagrees with the documented semantics (CIDR containment and prefix / masked comparison)");
        }
        i += 1;
    }
    // the list
    let got = engine.evaluate(&ip, random);
    if let Some(want) = ref_evaluate(refs, &ip, random) {
        assert!(got == want, "C04.engine.evaluate: verdict differs from first-match-wins / fail-closed / default-allow evaluation");
        kani::cover!(true, "C04.cover.obligation_reached");
    } else {
        // the documentation leaves the verdict open for every input of this instance that gets here (a prefix/mask
        // pair of unequal lengths in a rule that decides the outcome): only the absence of panics, overflows and
        // out-of-bounds accesses in Rule::matches / RulesEngine::evaluate is decided for it
        kani::cover!(true, "C04.cover.unspecified_input_panic_freedom_only");
    }
}

/*@gen
{"name": "c04_rules_{0}", "call": "check_list::<{1}, {2}>(&[{3}], &[{4}])", "unwind": 40, "stubs": ["fmt"], "core": true,
 "bound": "rule list #{0}: [{5}]; client address: every {6} address; client random: {7}",
 "desc": "Rule::matches for each rule and RulesEngine::evaluate for the list agree with an independent evaluator of the documented semantics for every client address and client random of the stated shape",
 "encodes": ["rules::Rule::matches", "rules::RulesEngine::evaluate"],
 "quick": "__import__('c04gen').instances('quick')", "thorough": "__import__('c04gen').instances('thorough')"}
@*/
