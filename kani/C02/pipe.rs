//! C02 — TCP relay exactness: SimplexPipe::exchange between a scripted source and a back-pressuring sink.
//! @encodes pipe::SimplexPipe::exchange
//! @cut K1 K4 K5
//! @assume the source is a script of two chunks of concrete lengths (symbolic contents) followed by end-of-stream and is never pending; the sink accepts a symbolic prefix (0..=offered) of each write, its wait_writable is always ready; the idle timer never fires in these harnesses
//! @assume source, sink and pipe live in the harness's stack frame and deallocation is a no-op; boxed futures created by the code under test are real heap objects
//! @assume concrete endpoints (kernel sockets, h2/quiche flow control) are outside the claim: "credit returned" is claimed up to the argument passed to Source::consume
use super::*;
use crate::verif_env::prefix_sink::{self, PrefixSink};
use crate::verif_env::script_source::{self, ScriptSource};
use crate::verif_env::{poll_n, stack_box};
use std::mem::ManuallyDrop;

static mut CHUNK_A: [u8; 8] = [0; 8];
static mut CHUNK_B: [u8; 8] = [0; 8];

#[allow(static_mut_refs)]
fn relay<const A: usize, const B: usize>() {
    let a: [u8; 8] = kani::any();
    let b: [u8; 8] = kani::any();
    let (ca, cb): (&'static [u8], &'static [u8]) = unsafe {
        CHUNK_A = a;
        CHUNK_B = b;
        (&CHUNK_A[..A], &CHUNK_B[..B])
    };
    let acc: [usize; 4] = kani::any();
    kani::assume(acc[0] <= 8 && acc[1] <= 8 && acc[2] <= 8 && acc[3] <= 8);
    // liveness of the sink: an offer that is repeated is eventually accepted (at least one byte on every second offer)
    kani::assume(acc[0] + acc[1] >= 1 && acc[2] + acc[3] >= 1 && acc[3] >= 1);
    prefix_sink::reset(acc);
    script_source::reset();
    let mut src = ManuallyDrop::new(ScriptSource { chunks: [ca, cb], idx: 0 });
    let mut snk = ManuallyDrop::new(PrefixSink);
    let source: Box<dyn Source> = stack_box::<ScriptSource>(&mut src);
    let sink: Box<dyn Sink> = stack_box::<PrefixSink>(&mut snk);
    let mut pipe = ManuallyDrop::new(SimplexPipe::new(source, sink, script_source::count_metric, SimplexDirection::Outgoing));
    let mut fut = Box::pin(pipe.exchange((), std::time::Duration::from_secs(60)));
    let r = poll_n(&mut fut, 2);
    let total = A + B;
    match &r {
        Some(Ok(ExchangeOnceStatus::Finished(()))) => {
            assert!(prefix_sink::log_len() == total, "C02.relay.count: the destination did not receive exactly the bytes the source produced (loss or duplication)");
            let mut i = 0;
            while i < total {
                let want = if i < A { a[i] } else { b[i - A] };
                assert!(prefix_sink::log(i) == want, "C02.relay.order: bytes delivered out of order or altered");
                i += 1;
            }
            assert!(script_source::consumed() == total, "C02.relay.credit: receive-window credit returned to the sender differs from the bytes forwarded");
            assert!(script_source::metric_bytes() == total, "C02.relay.metrics: bytes reported to the metrics callback differ from the bytes forwarded");
            assert!(prefix_sink::eofs() == 1 && !prefix_sink::write_after_eof(), "C02.relay.eof: end of stream must be passed on once, after all preceding bytes");
            kani::cover!(prefix_sink::writes() > 2, "C02.cover.relay_with_backpressure");
            kani::cover!(prefix_sink::writes() == 2, "C02.cover.relay_no_backpressure");
        }
        Some(Ok(ExchangeOnceStatus::TimedOut(()))) => assert!(false, "C02.relay.timeout: idle timeout although the timer never fired"),
        Some(Err(_)) => assert!(false, "C02.relay.err: relay failed although neither endpoint did"),
        None => {
            // the sink may legitimately need more offers than this harness bounds; what was delivered so far must be a prefix
            assert!(prefix_sink::log_len() <= total, "C02.relay.dup: more bytes delivered than produced");
        }
    }
    std::mem::forget(r);
    std::mem::forget(fut);
}

/*@gen
{"name": "c02_simplex_relay_{0}_{1}", "call": "relay::<{0}, {1}>()", "unwind": 12, "stubs": ["bytes", "bytesmut", "fmt", "nofree"], "core": false,
 "bound": "source script: chunks of {0} and {1} bytes (symbolic contents) then end-of-stream; the sink accepts a symbolic prefix of each of up to 4 writes",
 "desc": "everything the source produced reaches the sink exactly once and in order, credit and metrics equal the bytes accepted, a remainder is re-offered before the next read, eof after the last byte, result Finished",
 "encodes": ["pipe::SimplexPipe::exchange"],
 "quick": "[]", "thorough": "[(2,0),(2,1),(3,2)]"}
@*/
