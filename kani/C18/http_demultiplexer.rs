//! C18 — channel selection inside a session: ping > speedtest > reverse proxy > tunnel.
//! @encodes http_demultiplexer::HttpDemux::select
//! @assume requests are concrete templates with symbolic presence of the ping marker / Upgrade headers, symbolic protocol, speedtest switch and reverse-proxy section; Settings live in the harness's stack frame
use super::*;
use crate::verif_env::{fmt_format_stub, from_utf8_accept, StackArc};
use std::mem::ManuallyDrop;

fn select_table<const PATH: usize>() {
    // PATH 0 "/", 1 "/speed/1mb.bin", 2 "/rp/x" (reverse-proxy mask "/rp"), 3 "/other"
    let uri: &'static str = match PATH {
        0 => "/",
        1 => "/speed/1mb.bin",
        2 => "/rp/x",
        _ => "/other",
    };
    let ping: bool = kani::any();
    let upgrade: bool = kani::any();
    let mut b = http::Request::builder().method(http::Method::GET).uri(http::Uri::from_static(uri));
    if ping {
        b = b.header(http::HeaderName::from_static("x-ping"), http::HeaderValue::from_static("1"));
    }
    if upgrade {
        b = b.header(http::header::UPGRADE, http::HeaderValue::from_static("websocket"));
    }
    let req = ManuallyDrop::new(b.body(()).unwrap().into_parts().0);
    let speedtest: bool = kani::any();
    let rp: bool = kani::any();
    let proto = match kani::any::<u8>() % 3 {
        0 => tls_demultiplexer::Protocol::Http1,
        1 => tls_demultiplexer::Protocol::Http2,
        _ => tls_demultiplexer::Protocol::Http3,
    };
    let sa = ManuallyDrop::new(StackArc::new(crate::settings::verif_c18::settings(speedtest, rp)));
    let demux = ManuallyDrop::new(HttpDemux::new(unsafe { sa.arc() }));
    let got = demux.select(proto, &req);
    let rp_proto_ok = match proto {
        tls_demultiplexer::Protocol::Http1 => upgrade,
        tls_demultiplexer::Protocol::Http3 => true,
        _ => false,
    };
    let want = if ping {
        net_utils::Channel::Ping
    } else if speedtest && PATH == 1 {
        net_utils::Channel::Speedtest
    } else if rp && PATH == 2 && rp_proto_ok {
        net_utils::Channel::ReverseProxy
    } else {
        net_utils::Channel::Tunnel
    };
    assert!(got == want, "C18.select.precedence: channel is not chosen by ping > speedtest (if enabled) > reverse proxy (configured, path under the mask, HTTP/1.1 Upgrade or HTTP/3) > tunnel");
    kani::cover!(got == net_utils::Channel::Ping, "C18.cover.select_ping");
    kani::cover!(got == net_utils::Channel::Tunnel, "C18.cover.select_tunnel");
}

/*@gen
{"name": "c18_select_path{0}", "call": "select_table::<{0}>()", "unwind": 24, "stubs": ["fmt", "utf8"], "core": true,
 "bound": "GET request with path #{0} (0 '/', 1 '/speed/1mb.bin', 2 '/rp/x', 3 '/other'); symbolic x-ping / Upgrade presence, protocol, speedtest switch, reverse-proxy section (mask '/rp')",
 "desc": "HttpDemux::select follows the documented precedence",
 "encodes": ["http_demultiplexer::HttpDemux::select"],
 "quick": "[0, 1, 2, 3]"}
@*/
