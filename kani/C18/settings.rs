//! C18 helper: Settings with the speedtest switch and an optional reverse-proxy section.
use super::*;

pub(crate) fn settings(speedtest: bool, reverse_proxy: bool) -> Settings {
    let mut s = Settings::builder().settings;
    s.speedtest_enable = speedtest;
    if reverse_proxy {
        let mask: &'static str = "/rp";
        s.reverse_proxy = Some(ReverseProxySettings {
            server_address: SocketAddr::from(([127, 0, 0, 1], 8080)),
            path_mask: unsafe { String::from_raw_parts(mask.as_ptr() as *mut u8, mask.len(), mask.len()) },
            h3_backward_compatibility: false,
        });
    }
    s
}
