//! C18 — speedtest request recognition and bounds.
//! @encodes http_speedtest_handler::prepare_speedtest
//! @assume the request path is `/NNNmb.bin` (optionally under /speed) with three symbolic decimal digits, or /upload.html with a symbolic 9-digit Content-Length; the URI lives in static memory; http::Uri and HeaderValue parsing are executed for real
//! @assume leading '+' signs and other spellings accepted by u32::from_str are outside the alphabet; the download loop, the upload drain and the response are async over the codec and outside the claim
use super::*;
use crate::verif_env::{fmt_format_stub, from_utf8_accept, mock};

static mut PATH: [u8; 16] = *b"/speed/000mb.bin";

fn dec(d: &[u8]) -> u64 {
    let mut v = 0u64;
    let mut i = 0;
    while i < d.len() {
        v = v * 10 + (d[i] - b'0') as u64;
        i += 1;
    }
    v
}

/// GET /[speed/]NNNmb.bin
#[allow(static_mut_refs)]
fn download<const SKIPPABLE: bool>() {
    let d: [u8; 3] = kani::any();
    kani::assume(d[0] >= b'0' && d[0] <= b'9' && d[1] >= b'0' && d[1] <= b'9' && d[2] >= b'0' && d[2] <= b'9');
    let path: &'static str = unsafe {
        PATH[7] = d[0];
        PATH[8] = d[1];
        PATH[9] = d[2];
        std::str::from_utf8_unchecked(if SKIPPABLE { &PATH[..] } else { &PATH[6..] })
    };
    let uri = http::Uri::from_static(path);
    let req = std::mem::ManuallyDrop::new(http::Request::builder().method(http::Method::GET).uri(uri).body(()).unwrap().into_parts().0);
    let r = prepare_speedtest(&req);
    let n = dec(&d);
    match &r {
        Ok(Speedtest::Download(bytes)) => {
            assert!(n >= 1 && n <= 100, "C18.download.bounds: a download size outside 1..=100 MiB is accepted");
            assert!(*bytes as u64 == n * 1024 * 1024, "C18.download.size: GET /Nmb.bin must be served N x 2^20 bytes");
            kani::cover!(n == 100, "C18.cover.download_max");
        }
        Ok(Speedtest::Upload(_)) => assert!(false, "C18.download.kind: a GET is treated as an upload"),
        Err(_) => assert!(!(n >= 1 && n <= 100), "C18.download.refused: a documented download size is refused"),
    }
    kani::cover!(r.is_err(), "C18.cover.download_refused");
    std::mem::forget(r);
}

/*@gen
{"name": "c18_speedtest_download_{1}", "call": "download::<{0}>()", "unwind": 24, "stubs": ["fmt", "utf8"], "core": true,
 "bound": "GET {2} for every three-digit decimal N (000..999)",
 "desc": "a download is accepted exactly for 1 <= N <= 100 and is N x 2^20 bytes; everything else is refused; no arithmetic overflow",
 "encodes": ["http_speedtest_handler::prepare_speedtest"],
 "quick": "[('true','under_speed','/speed/NNNmb.bin'),('false','root','/NNNmb.bin')]"}
@*/

static mut CLEN: [u8; 9] = *b"000000000";

// @harness tier=quick core=yes bound="POST /upload.html with every 9-digit decimal Content-Length (000000000..999999999), or without the header"
// @desc an upload is accepted exactly for 1 <= L <= 120 x 2^20; a missing or out-of-range length is refused
// @encodes http_speedtest_handler::prepare_speedtest
#[kani::proof]
#[kani::unwind(24)]
#[kani::stub(alloc::fmt::format, fmt_format_stub)]
#[kani::stub(std::str::from_utf8, from_utf8_accept)]
#[allow(static_mut_refs)]
fn c18_speedtest_upload_bounds() {
    let d: [u8; 9] = kani::any();
    let mut i = 0;
    while i < 9 {
        kani::assume(d[i] >= b'0' && d[i] <= b'9');
        i += 1;
    }
    let with_len: bool = kani::any();
    let mut b = http::Request::builder().method(http::Method::POST).uri(http::Uri::from_static("/upload.html"));
    if with_len {
        let v = unsafe {
            CLEN = d;
            http::HeaderValue::from_static(std::str::from_utf8_unchecked(&CLEN))
        };
        b = b.header(http::header::CONTENT_LENGTH, v);
    }
    let req = std::mem::ManuallyDrop::new(b.body(()).unwrap().into_parts().0);
    let r = prepare_speedtest(&req);
    let n = dec(&d);
    let ok = with_len && n >= 1 && n <= 120 * 1024 * 1024;
    match &r {
        Ok(Speedtest::Upload(l)) => {
            assert!(ok, "C18.upload.bounds: an upload without a length or outside 1..=120 MiB is accepted");
            assert!(*l as u64 == n, "C18.upload.len: upload length is not the Content-Length");
        }
        Ok(Speedtest::Download(_)) => assert!(false, "C18.upload.kind: a POST is treated as a download"),
        Err(_) => assert!(!ok, "C18.upload.refused: a documented upload is refused"),
    }
    kani::cover!(r.is_ok(), "C18.cover.upload_ok");
    kani::cover!(with_len && r.is_err(), "C18.cover.upload_too_large_or_zero");
    std::mem::forget(r);
}

// @harness tier=quick core=no bound="methods HEAD / PUT and the near-miss paths /1kb.bin, /1mb.bin/, /mb.bin, /upload.htm"
// @desc anything but the two documented requests is refused
// @encodes http_speedtest_handler::prepare_speedtest
#[kani::proof]
#[kani::unwind(24)]
#[kani::stub(alloc::fmt::format, fmt_format_stub)]
#[kani::stub(std::str::from_utf8, from_utf8_accept)]
fn c18_speedtest_near_misses() {
    let which: u8 = kani::any();
    kani::assume(which < 6);
    let (m, u): (http::Method, &'static str) = match which {
        0 => (http::Method::HEAD, "/1mb.bin"),
        1 => (http::Method::PUT, "/upload.html"),
        2 => (http::Method::GET, "/1kb.bin"),
        3 => (http::Method::GET, "/1mb.bin/"),
        4 => (http::Method::GET, "/mb.bin"),
        _ => (http::Method::POST, "/upload.htm"),
    };
    let req = std::mem::ManuallyDrop::new(mock::request(m, u));
    let r = prepare_speedtest(&req);
    assert!(r.is_err(), "C18.nearmiss.accepted: a request that is neither GET /Nmb.bin nor POST /upload.html is accepted as a speedtest");
    std::mem::forget(r);
}
