//! C03 — egress classification, full domain.
//! @encodes net_utils::is_global_ipv4
//! @encodes net_utils::is_global_ipv6
//! @encodes net_utils::is_unicast_global_ipv6
//! @encodes net_utils::is_global_ip
//! @assume the two-sided oracle is typed from the IANA IPv4/IPv6 special-purpose registries; addresses in neither set (multicast, 192.0.0.0/24, 198.18.0.0/15, 192.88.99.0/24, NAT64 64:ff9b::/96, 2001::/23, 2002::/16, 3fff::/20, everything outside 2000::/3 that is not listed) carry no obligation
use super::*;

/// IPv4 addresses the policy must refuse (property text: loopback, private,
/// link-local, unspecified, shared/CGNAT, reserved, documentation).
fn ref_v4_must_refuse(o: [u8; 4]) -> bool {
    let x = u32::from_be_bytes(o);
    let in_net = |net: u32, bits: u32| -> bool { (x >> (32 - bits)) == (net >> (32 - bits)) };
    in_net(0x0000_0000, 8)          // 0.0.0.0/8 "this network" incl. unspecified
        || in_net(0x0a00_0000, 8)   // 10/8
        || in_net(0x6440_0000, 10)  // 100.64/10 shared address space
        || in_net(0x7f00_0000, 8)   // 127/8
        || in_net(0xa9fe_0000, 16)  // 169.254/16
        || in_net(0xac10_0000, 12)  // 172.16/12
        || in_net(0xc000_0200, 24)  // 192.0.2/24 TEST-NET-1
        || in_net(0xc0a8_0000, 16)  // 192.168/16
        || in_net(0xc633_6400, 24)  // 198.51.100/24 TEST-NET-2
        || in_net(0xcb00_7100, 24)  // 203.0.113/24 TEST-NET-3
        || in_net(0xf000_0000, 4) // 240/4 reserved incl. limited broadcast
}

/// IPv4 addresses that are plainly global unicast: outside every special-purpose block.
fn ref_v4_must_allow(o: [u8; 4]) -> bool {
    let x = u32::from_be_bytes(o);
    let in_net = |net: u32, bits: u32| -> bool { (x >> (32 - bits)) == (net >> (32 - bits)) };
    !(ref_v4_must_refuse(o)
        || in_net(0xc000_0000, 24)  // 192.0.0.0/24 IETF protocol assignments
        || in_net(0xc058_6300, 24)  // 192.88.99.0/24 deprecated 6to4 relay anycast
        || in_net(0xc612_0000, 15)  // 198.18/15 benchmarking
        || in_net(0xe000_0000, 4)) // 224/4 multicast
}

fn ref_v6_must_refuse(o: [u8; 16]) -> bool {
    let s0 = u16::from_be_bytes([o[0], o[1]]);
    let s1 = u16::from_be_bytes([o[2], o[3]]);
    let hi_zero = {
        let mut z = true;
        let mut i = 0;
        while i < 10 {
            z = z && o[i] == 0;
            i += 1;
        }
        z
    };
    let low6_zero = o[10] == 0 && o[11] == 0 && o[12] == 0 && o[13] == 0 && o[14] == 0;
    let unspecified = hi_zero && low6_zero && o[15] == 0;
    let loopback = hi_zero && low6_zero && o[15] == 1;
    let mapped = hi_zero && o[10] == 0xff && o[11] == 0xff;
    unspecified
        || loopback
        || (s0 & 0xffc0) == 0xfe80                  // link-local unicast fe80::/10
        || (s0 & 0xfe00) == 0xfc00                  // unique local fc00::/7
        || (s0 == 0x2001 && s1 == 0x0db8)           // documentation 2001:db8::/32
        || (mapped && ref_v4_must_refuse([o[12], o[13], o[14], o[15]]))
}

fn ref_v6_must_allow(o: [u8; 16]) -> bool {
    let s0 = u16::from_be_bytes([o[0], o[1]]);
    let s1 = u16::from_be_bytes([o[2], o[3]]);
    (s0 & 0xe000) == 0x2000                          // 2000::/3 global unicast
        && !(s0 == 0x2001 && (s1 & 0xfe00) == 0)     // 2001::/23 IETF protocol assignments
        && !(s0 == 0x2001 && s1 == 0x0db8)           // 2001:db8::/32
        && s0 != 0x2002                              // 6to4
        && !(s0 == 0x3fff && (s1 & 0xf000) == 0) // 3fff::/20 documentation
}

pub(crate) fn ref_must_refuse(ip: &IpAddr) -> bool {
    match ip {
        IpAddr::V4(a) => ref_v4_must_refuse(a.octets()),
        IpAddr::V6(a) => ref_v6_must_refuse(a.octets()),
    }
}

pub(crate) fn ref_must_allow(ip: &IpAddr) -> bool {
    match ip {
        IpAddr::V4(a) => ref_v4_must_allow(a.octets()),
        IpAddr::V6(a) => ref_v6_must_allow(a.octets()),
    }
}

// @harness tier=quick core=yes bound="all 2^32 IPv4 addresses"
// @desc is_global_ipv4 refuses every must-refuse address and accepts every plainly global address
// @encodes net_utils::is_global_ipv4
#[kani::proof]
fn c03_v4_classifier_full_domain() {
    let o: [u8; 4] = kani::any();
    let ip = Ipv4Addr::from(o);
    let got = is_global_ipv4(&ip);
    if ref_v4_must_refuse(o) {
        assert!(!got, "C03.v4.must_refuse: a private/loopback/link-local/shared/reserved/documentation IPv4 address is classified global");
    }
    if ref_v4_must_allow(o) {
        assert!(got, "C03.v4.must_allow: a globally routable unicast IPv4 address is refused");
    }
    assert!(is_global_ip(&IpAddr::V4(ip)) == got, "C03.v4.ip_wrapper: is_global_ip disagrees with is_global_ipv4");
    kani::cover!(ref_v4_must_refuse(o) && o[0] == 100, "C03.cover.v4_refuse_region");
    kani::cover!(ref_v4_must_allow(o) && o[0] == 192, "C03.cover.v4_allow_region");
    kani::cover!(!ref_v4_must_allow(o) && !ref_v4_must_refuse(o), "C03.cover.v4_unconstrained_region");
}

// @harness tier=quick core=yes bound="all 2^128 IPv6 addresses"
// @desc is_global_ipv6 refuses ::, ::1, fe80::/10, fc00::/7, 2001:db8::/32 and every IPv4-mapped must-refuse address
// @encodes net_utils::is_global_ipv6
#[kani::proof]
fn c03_v6_must_refuse_full_domain() {
    let o: [u8; 16] = kani::any();
    let ip = Ipv6Addr::from(o);
    let got = is_global_ipv6(&ip);
    if ref_v6_must_refuse(o) {
        assert!(!got, "C03.v6.must_refuse: a loopback/link-local/unique-local/unspecified/documentation/IPv4-mapped-private IPv6 address is classified global");
    }
    assert!(is_global_ip(&IpAddr::V6(ip)) == got, "C03.v6.ip_wrapper: is_global_ip disagrees with is_global_ipv6");
    kani::cover!(ref_v6_must_refuse(o) && o[0] == 0xfd, "C03.cover.v6_ula");
    kani::cover!(ref_v6_must_refuse(o) && o[0] == 0 && o[10] == 0xff, "C03.cover.v6_mapped_private");
    kani::cover!(!ref_v6_must_refuse(o), "C03.cover.v6_not_refused");
}

// @harness tier=quick core=yes bound="all 2^128 IPv6 addresses"
// @desc is_global_ipv6 never refuses an address of 2000::/3 outside the special-purpose blocks
// @encodes net_utils::is_global_ipv6
#[kani::proof]
fn c03_v6_must_allow_full_domain() {
    let o: [u8; 16] = kani::any();
    let ip = Ipv6Addr::from(o);
    let got = is_global_ipv6(&ip);
    if ref_v6_must_allow(o) {
        assert!(got, "C03.v6.must_allow: a globally routable unicast IPv6 address is refused");
    }
    kani::cover!(ref_v6_must_allow(o) && o[1] == 0x01, "C03.cover.v6_allow_2x01");
    kani::cover!(!ref_v6_must_allow(o), "C03.cover.v6_not_in_allow_set");
}

// @harness tier=quick core=no bound="all 2^32 embedded IPv4 addresses"
// @desc an IPv4-mapped IPv6 literal of an address the IPv4 rule refuses is refused as well, for the IPv4 rule *as implemented* (not only the oracle's must-refuse set)
// @encodes net_utils::is_global_ipv6
#[kani::proof]
fn c03_v6_mapped_follows_v4_rule() {
    let a: [u8; 4] = kani::any();
    let mut o = [0u8; 16];
    o[10] = 0xff;
    o[11] = 0xff;
    o[12] = a[0];
    o[13] = a[1];
    o[14] = a[2];
    o[15] = a[3];
    let v4 = is_global_ipv4(&Ipv4Addr::from(a));
    let v6 = is_global_ipv6(&Ipv6Addr::from(o));
    if !v4 {
        assert!(!v6, "C03.v6.mapped_not_weaker: ::ffff:a.b.c.d is accepted although a.b.c.d is refused");
    }
    kani::cover!(!v4, "C03.cover.mapped_refused");
    kani::cover!(v4, "C03.cover.mapped_v4_global");
}
