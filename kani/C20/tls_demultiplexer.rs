//! C20 — Debug output of ConnectionMeta (logged by core.rs at debug level).
//! @encodes tls_demultiplexer::ConnectionMeta::fmt (Debug)
//! @assume the formatted text is collected through core::fmt::Write into a fixed array (real fmt machinery)
use super::*;
use std::fmt::Write as _;

struct ArraySink {
    buf: [u8; 160],
    len: usize,
}
impl std::fmt::Write for ArraySink {
    fn write_str(&mut self, s: &str) -> std::fmt::Result {
        let b = s.as_bytes();
        let mut i = 0;
        while i < b.len() {
            if self.len < 160 {
                self.buf[self.len] = b[i];
            }
            self.len += 1;
            i += 1;
        }
        Ok(())
    }
}

fn contains(hay: &[u8], n: usize, needle: &[u8]) -> bool {
    let mut i = 0;
    while i + needle.len() <= n {
        let mut j = 0;
        let mut all = true;
        while j < needle.len() {
            all = all && hay[i + j] == needle[j];
            j += 1;
        }
        if all {
            return true;
        }
        i += 1;
    }
    false
}

// @harness tier=quick core=no bound="SNI 'Zq7.host' with credentials label 'Zq7' (a canary that occurs nowhere else in the output), every protocol/channel"
// @desc the Debug text of a ConnectionMeta that carries SNI credentials does not contain the credentials label
// @encodes tls_demultiplexer::ConnectionMeta::fmt
#[kani::proof]
#[kani::unwind(170)]
fn c20_connection_meta_debug_hides_credentials() {
    // only the four fields Debug prints are initialised (the boring FFI identity cannot be built here and is not read)
    let mut slot = std::mem::MaybeUninit::<ConnectionMeta>::uninit();
    let meta: &ConnectionMeta = unsafe {
        let p = slot.as_mut_ptr();
        std::ptr::write(std::ptr::addr_of_mut!((*p).sni), String::from("Zq7.host"));
        std::ptr::write(std::ptr::addr_of_mut!((*p).protocol), if kani::any() { Protocol::Http2 } else { Protocol::Http1 });
        std::ptr::write(std::ptr::addr_of_mut!((*p).channel), if kani::any() { Channel::Tunnel } else { Channel::Ping });
        std::ptr::write(std::ptr::addr_of_mut!((*p).sni_auth_creds), Some(String::from("Zq7")));
        &*p
    };
    let mut sink = ArraySink { buf: [0; 160], len: 0 };
    let r = write!(&mut sink, "{:?}", meta);
    assert!(r.is_ok() && sink.len <= 160, "C20.meta.format: formatting failed");
    assert!(!contains(&sink.buf, sink.len, b"Zq7"), "C20.meta.creds_leak: the Debug text of ConnectionMeta (logged at debug level) contains the SNI credentials label");
}
