//! C20 — the scrubbing helpers.
//! @encodes net_utils::scrub_sni
//! @assume whether every log statement applies the helpers is a whole-program question outside the claim
use super::*;

fn scrub_sni_shape<const L: usize>() {
    let b: [u8; L] = kani::any();
    let mut i = 0;
    while i < L {
        kani::assume(b[i] == b'a' || b[i] == b'b' || b[i] == b'.');
        i += 1;
    }
    let s = String::from_utf8(b.to_vec()).unwrap();
    let out = scrub_sni(s);
    let ob = out.as_bytes();
    // reference: the first label is replaced by the placeholder iff there is a dot
    let mut dot = L;
    let mut i = 0;
    while i < L {
        if b[i] == b'.' && dot == L {
            dot = i;
        }
        i += 1;
    }
    if dot == L {
        assert!(ob.len() == L, "C20.sni.nodot_len: an SNI without credentials label must be unchanged");
        let mut i = 0;
        while i < L {
            assert!(ob[i] == b[i], "C20.sni.nodot: an SNI without credentials label must be unchanged");
            i += 1;
        }
    } else {
        let ph = SCRUBBED_PLACEHOLDER.as_bytes();
        assert!(ob.len() == ph.len() + (L - dot), "C20.sni.len: scrubbed SNI must be placeholder + suffix from the first dot");
        let mut i = 0;
        while i < ph.len() {
            assert!(ob[i] == ph[i], "C20.sni.placeholder: the first label must be replaced by the placeholder");
            i += 1;
        }
        let mut i = 0;
        while i < L - dot {
            assert!(ob[ph.len() + i] == b[dot + i], "C20.sni.suffix: the host part must be preserved");
            i += 1;
        }
    }
    kani::cover!(dot < L && dot > 0, "C20.cover.sni_with_label");
    kani::cover!(dot == L, "C20.cover.sni_plain");
}

/*@gen
{"name": "c20_scrub_sni_len{0}", "call": "scrub_sni_shape::<{0}>()", "unwind": 20, "stubs": [], "core": true,
 "bound": "every string of exactly {0} characters over the alphabet a, b, dot",
 "desc": "scrub_sni replaces the label before the first dot by the placeholder and leaves dot-free names unchanged",
 "encodes": ["net_utils::scrub_sni"],
 "quick": "[1, 3, 5]", "thorough": "[2, 4, 6, 7]"}
@*/
