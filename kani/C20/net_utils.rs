//! C20 — the scrubbing helpers.
//! @encodes net_utils::scrub_sni
//! @assume core::slice::memchr::{memchr, memrchr} (word-at-a-time search whose fast path depends on the symbolic alignment of the haystack) are replaced by byte-wise loops
//! @assume whether every log statement applies the helpers is a whole-program question outside the claim
use super::*;

/// P = position of the first dot (P == L: no dot).  The label before the first dot is concrete filler (letters, a digit, '-' and '_') (the function
/// only searches it for a dot; a symbolic label makes `str::find` + `replace_range` run out of memory in symex), the
/// host part after the first dot is symbolic over {a, b, .}.
fn scrub_sni_shape<const P: usize, const L: usize, const OUT: usize>() {
    // OUT = 8 + (L - P) when P < L, else L
    let tail: [u8; L] = kani::any();
    let mut v = Vec::with_capacity(L);
    let mut i = 0;
    while i < L {
        if i < P {
            // filler of the credentials label: letters, digits and the punctuation a label may contain (never a dot)
            v.push(b"q-_7"[i % 4]);
        } else if i == P {
            v.push(b'.');
        } else {
            kani::assume(tail[i] == b'a' || tail[i] == b'b' || tail[i] == b'.');
            v.push(tail[i]);
        }
        i += 1;
    }
    let s = unsafe { String::from_utf8_unchecked(v) };
    let out = std::mem::ManuallyDrop::new(scrub_sni(s));
    let ob = out.as_bytes();
    if P >= L {
        assert!(ob.len() == L, "C20.sni.nodot_len: an SNI without credentials label must be unchanged");
        let mut i = 0;
        while i < L {
            assert!(ob[i] == b"q-_7"[i % 4], "C20.sni.nodot: an SNI without credentials label must be unchanged");
            i += 1;
        }
    } else {
        let ph = SCRUBBED_PLACEHOLDER.as_bytes();
        assert!(ob.len() == OUT, "C20.sni.len: scrubbed SNI must be placeholder + suffix from the first dot (the credentials label is still there)");
        let mut i = 0;
        while i < ph.len() {
            assert!(ob[i] == ph[i], "C20.sni.placeholder: the first label must be replaced by the placeholder");
            i += 1;
        }
        assert!(ob[ph.len()] == b'.', "C20.sni.dot: the host part must start at the first dot");
        let mut i = P + 1;
        while i < L {
            assert!(ob[ph.len() + (i - P)] == tail[i], "C20.sni.suffix: the host part must be preserved");
            i += 1;
        }
    }
    kani::cover!(true, "C20.cover.sni_reached");
}

/*@gen
{"name": "c20_scrub_sni_label{0}_len{1}", "call": "scrub_sni_shape::<{0}, {1}, {2}>()", "unwind": "{1} + 12", "stubs": ["memchr"], "core": true,
 "bound": "SNI of {1} bytes whose first dot is at offset {0} (offset == length: no dot); label = filler, host part symbolic over a, b, dot",
 "desc": "scrub_sni replaces the label before the first dot by the placeholder for the enumerated label lengths (0..=20 bytes; instances with 63- and 64-byte labels exhaust 10 GB and are not part of any tier) and leaves dot-free names unchanged",
 "encodes": ["net_utils::scrub_sni"],
 "quick": "[(0,3,11),(1,4,11),(3,7,12),(5,5,5),(12,14,10)]", "thorough": "[(2,2,2),(7,12,13),(17,20,11),(20,24,12)]"}
@*/
