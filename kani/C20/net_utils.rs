//! C20 — the scrubbing helpers.
//! @encodes net_utils::scrub_sni
//! @assume core::slice::memchr::{memchr, memrchr} (word-at-a-time search whose fast path depends on the symbolic alignment of the haystack) are replaced by byte-wise loops
//! @assume whether every log statement applies the helpers is a whole-program question outside the claim
use super::*;

/// P = position of the first dot (P == L: no dot).  The label before the first dot is concrete filler (letters, a digit, '-' and '_') (the function
/// only searches it for a dot; a symbolic label makes `str::find` + `replace_range` run out of memory in symex), the
/// host part after the first dot is symbolic over {a, b, .}.
/// Fillers of the credentials label: letters, a digit and the punctuation a label may contain (never a dot); the
/// second one starts with the placeholder text itself (a label that merely *begins* like an already scrubbed name).
const FILL: [&[u8]; 2] = [b"q-_7", b"scrubbed-7q_"];

fn scrub_sni_shape<const P: usize, const L: usize, const OUT: usize, const F: usize>() {
    // OUT = 8 + (L - P) when P < L, else L
    let tail: [u8; L] = kani::any();
    let mut v = Vec::with_capacity(L);
    let mut i = 0;
    while i < L {
        if i < P {
            // filler of the credentials label: letters, digits and the punctuation a label may contain (never a dot)
            v.push(FILL[F][i % FILL[F].len()]);
        } else if i == P {
            v.push(b'.');
        } else {
            kani::assume(tail[i] == b'a' || tail[i] == b'b' || tail[i] == b'.');
            v.push(tail[i]);
        }
        i += 1;
    }
    let s = unsafe { String::from_utf8_unchecked(v) };
    let out = std::mem::ManuallyDrop::new(scrub_sni(s));
    let ob = out.as_bytes();
    if P >= L {
        assert!(ob.len() == L, "C20.sni.nodot_len: an SNI without credentials label must be unchanged");
        let mut i = 0;
        while i < L {
            assert!(ob[i] == FILL[F][i % FILL[F].len()], "C20.sni.nodot: an SNI without credentials label must be unchanged");
            i += 1;
        }
    } else {
        let ph = SCRUBBED_PLACEHOLDER.as_bytes();
        assert!(ob.len() == OUT, "C20.sni.len: scrubbed SNI must be placeholder + suffix from the first dot (the credentials label is still there)");
        let mut i = 0;
        while i < ph.len() {
            assert!(ob[i] == ph[i], "C20.sni.placeholder: the first label must be replaced by the placeholder");
            i += 1;
        }
        assert!(ob[ph.len()] == b'.', "C20.sni.dot: the host part must start at the first dot");
        let mut i = P + 1;
        while i < L {
            assert!(ob[ph.len() + (i - P)] == tail[i], "C20.sni.suffix: the host part must be preserved");
            i += 1;
        }
    }
    kani::cover!(true, "C20.cover.sni_reached");
}

/*@gen
{"name": "c20_scrub_sni_label{0}_len{1}", "call": "scrub_sni_shape::<{0}, {1}, {2}, 0>()", "unwind": "{1} + 12", "stubs": ["memchr"], "core": true,
 "bound": "SNI of {1} bytes whose first dot is at offset {0} (offset == length: no dot); label = filler, host part symbolic over a, b, dot",
 "desc": "scrub_sni replaces the label before the first dot by the placeholder for the enumerated label lengths (0..=20 bytes; longer labels: c20_scrub_sni_long_*) and leaves dot-free names unchanged",
 "encodes": ["net_utils::scrub_sni"],
 "quick": "[(0,3,11),(1,4,11),(3,7,12),(5,5,5),(12,14,10)]", "thorough": "[(2,2,2),(7,12,13),(17,20,11),(20,24,12)]"}
@*/

/*@gen
{"name": "c20_scrub_sni_phlabel{0}_len{1}", "call": "scrub_sni_shape::<{0}, {1}, {2}, 1>()", "unwind": "{1} + 12", "stubs": ["memchr"], "core": true,
 "bound": "SNI of {1} bytes whose first dot is at offset {0} (offset == length: no dot); label = filler starting with the placeholder text `scrubbed`, host part symbolic over a, b, dot",
 "desc": "scrub_sni replaces a label that itself begins with (or is) the placeholder text",
 "encodes": ["net_utils::scrub_sni"],
 "quick": "[(8,10,10),(9,12,11),(12,14,10)]", "thorough": "[(4,6,10),(10,10,10),(16,19,11)]"}
@*/

/// Long credentials labels (DNS allows 63 bytes; an SNI label is not checked against that limit).  The backing store
/// of the String is a stack array (stack objects are constant-folded by symex, heap objects are not) and nothing is
/// freed (`nofree`); `replace_range` with a replacement shorter than the label never reallocates.  The label is
/// concrete filler, the last byte of the name is symbolic.  CBMC stops treating an array
/// field-sensitively above 64 elements (`--max-field-sensitivity-array-size`): the backing array of a longer name is
/// then no longer constant-folded and a 67-byte instance exhausts 10 GB (measured), so the instances with names
/// longer than 64 bytes (`c20_scrub_sni_xlong_*`) are decided with that bound raised to 160 (`@cbmc`, 18 s).
fn scrub_sni_long_shape<const P: usize, const L: usize>() {
    let mut raw = [0u8; L];
    let mut i = 0;
    while i < L {
        raw[i] = if i == P { b'.' } else { b"q-_7"[i % 4] };
        i += 1;
    }
    // the last byte of the host part is symbolic when there is a host part (P == L - 1: the name ends with the dot)
    let last: u8 = if P + 1 < L { kani::any() } else { b'.' };
    kani::assume(last == b'a' || last == b'.');
    raw[L - 1] = last;
    let mut slot = std::mem::ManuallyDrop::new(raw);
    let v = crate::verif_env::stack_vec(&mut slot);
    let s = unsafe { String::from_utf8_unchecked(v) };
    let out = std::mem::ManuallyDrop::new(scrub_sni(s));
    let ob = out.as_bytes();
    let ph = SCRUBBED_PLACEHOLDER.as_bytes();
    assert!(ob.len() == ph.len() + (L - P), "C20.sni.long_len: scrubbed SNI must be placeholder + suffix from the first dot (a long credentials label is still there)");
    let mut i = 0;
    while i < ph.len() {
        assert!(ob[i] == ph[i], "C20.sni.long_placeholder: the first label must be replaced by the placeholder");
        i += 1;
    }
    assert!(ob[ph.len()] == b'.', "C20.sni.long_dot: the host part must start at the first dot");
    assert!(ob[ob.len() - 1] == last, "C20.sni.long_suffix: the host part must be preserved");
    kani::cover!(true, "C20.cover.sni_long_reached");
}

/*@gen
{"name": "c20_scrub_sni_long_label{0}_len{1}", "call": "scrub_sni_long_shape::<{0}, {1}>()", "unwind": "{1} + 12", "stubs": ["memchr", "nofree"], "core": true,
 "bound": "SNI of {1} bytes whose first dot is at offset {0}; label = filler, last byte symbolic over a, dot",
 "desc": "scrub_sni replaces a long label (up to and beyond the 63-byte DNS label limit) before the first dot by the placeholder",
 "encodes": ["net_utils::scrub_sni"],
 "quick": "[(32,36),(63,64)]", "thorough": "[(48,52),(60,64),(62,64)]"}
@*/

/*@gen
{"name": "c20_scrub_sni_xlong_label{0}_len{1}", "call": "scrub_sni_long_shape::<{0}, {1}>()", "unwind": "{1} + 12", "stubs": ["memchr", "nofree"], "core": true,
 "cbmc": "--max-field-sensitivity-array-size 160",
 "bound": "SNI of {1} bytes whose first dot is at offset {0}; label = filler, last byte symbolic over a, dot; CBMC field sensitivity raised to 160 elements",
 "desc": "scrub_sni replaces a label longer than the 63-byte DNS limit before the first dot by the placeholder",
 "encodes": ["net_utils::scrub_sni"],
 "quick": "[(64,68)]", "thorough": "[(65,70),(100,104),(128,140)]"}
@*/
