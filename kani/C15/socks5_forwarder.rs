//! C15 — credentials handed to the SOCKS5 upstream: the two halves of the client's Basic credentials, split at the first colon.
//! @encodes socks5_forwarder::make_auth
//! @encodes base64::engine::general_purpose::STANDARD.decode (third-party, executed for real)
//! @assume credentials are 6 ASCII characters over the alphabet {a, b, :} (symbolic), base64-encoded by a reference encoder in the harness
use super::*;
use crate::verif_env::fmt_format_stub;

const B64: &[u8; 64] = b"ABCDEFGHIJKLMNOPQRSTUVWXYZabcdefghijklmnopqrstuvwxyz0123456789+/";

static mut ENCODED: [u8; 8] = [0; 8];

// @harness tier=quick core=yes bound="every 6-character credential string over {a, b, :} (base64 of it is 8 characters, no padding)"
// @desc user name and password sent upstream are exactly the text before and after the FIRST colon of the decoded Basic credentials; credentials without a colon are refused
// @encodes socks5_forwarder::make_auth
#[kani::proof]
#[kani::unwind(20)]
#[kani::stub(alloc::fmt::format, fmt_format_stub)]
#[kani::stub(std::str::from_utf8, crate::verif_env::from_utf8_accept)]
#[kani::stub(::core::slice::memchr::memchr, crate::verif_env::memchr_naive)]
#[kani::stub(::core::slice::memchr::memrchr, crate::verif_env::memrchr_naive)]
#[allow(static_mut_refs)]
fn c15_make_auth_splits_at_first_colon() {
    let c: [u8; 6] = kani::any();
    let mut i = 0;
    while i < 6 {
        kani::assume(c[i] == b'a' || c[i] == b'b' || c[i] == b':');
        i += 1;
    }
    // reference base64 (RFC 4648) of 6 bytes -> 8 characters
    let enc: &'static str = unsafe {
        let mut k = 0;
        while k < 2 {
            let (x, y, z) = (c[3 * k] as u32, c[3 * k + 1] as u32, c[3 * k + 2] as u32);
            let n = (x << 16) | (y << 8) | z;
            ENCODED[4 * k] = B64[((n >> 18) & 63) as usize];
            ENCODED[4 * k + 1] = B64[((n >> 12) & 63) as usize];
            ENCODED[4 * k + 2] = B64[((n >> 6) & 63) as usize];
            ENCODED[4 * k + 3] = B64[(n & 63) as usize];
            k += 1;
        }
        std::str::from_utf8_unchecked(&ENCODED)
    };
    let r = make_auth(authentication::Source::ProxyBasic(Cow::Borrowed(enc)));
    let mut colon = 6;
    let mut i = 0;
    while i < 6 {
        if c[i] == b':' && colon == 6 {
            colon = i;
        }
        i += 1;
    }
    match &r {
        Err(_) => assert!(colon == 6, "C15.make_auth.reject: well-formed user:password credentials are refused"),
        Ok(socks5_client::Authentication::UsernamePassword(u, p)) => {
            assert!(colon < 6, "C15.make_auth.no_colon: credentials without a colon must be refused");
            let (ub, pb) = (u.as_bytes(), p.as_bytes());
            assert!(ub.len() == colon, "C15.make_auth.user_len: user name is not the text before the first colon");
            assert!(pb.len() == 5 - colon, "C15.make_auth.pass_len: password is not everything after the first colon (a password may itself contain colons)");
            let mut i = 0;
            while i < colon {
                assert!(ub[i] == c[i], "C15.make_auth.user: user name altered");
                i += 1;
            }
            let mut i = 0;
            while i < 5 - colon {
                assert!(pb[i] == c[colon + 1 + i], "C15.make_auth.pass: password altered");
                i += 1;
            }
            kani::cover!(colon < 5 && c[5] == b':', "C15.cover.make_auth_password_with_colon");
        }
        Ok(_) => assert!(false, "C15.make_auth.kind: Basic credentials must become username/password authentication"),
    }
    kani::cover!(r.is_err(), "C15.cover.make_auth_refused");
    std::mem::forget(r);
}
