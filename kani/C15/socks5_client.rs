//! C15 — SOCKS5 client dialogue against a scripted in-memory server.
//! @encodes socks5_client::connect / connect_inner
//! @encodes socks5_client::SocksWriter::{write_selection_message, write_authentication_message, write_request}
//! @encodes socks5_client::SocksReader::{read_selection_response, read_authentication_response, read_reply}
//! @assume the transport is a scripted in-memory AsyncRead+AsyncWrite that is never pending, delivers the server's bytes in segments of 1 byte or all-at-once (instances) and reports EOF after its script; field lengths are concrete per instance, contents symbolic
//! @assume error-message formatting (alloc::fmt::format) is stubbed out
use super::*;
use crate::verif_env::{fmt_format_stub, poll_n, ScriptedIo};

fn run<'a, const NR: usize, const NW: usize>(
    io: &'a mut ScriptedIo<NR, NW>,
    auth: Option<Authentication<'a>>,
    request: Request<'a>,
) -> Option<Result<u8, u8>> {
    // Ok(0) = TcpConnection, Ok(1 + code) = Failure(code), Err(0) = Io, Err(1) = Protocol, Err(2) = Authentication
    let mut fut = Box::pin(connect(io, auth, request));
    let r = poll_n(&mut fut, 2)?;
    let out = match &r {
        Ok(ConnectResult::TcpConnection(_)) => Ok(0),
        Ok(ConnectResult::Failure(c)) => Ok(1 + match c {
            ReplyCode::Succeeded => 0,
            ReplyCode::GeneralFailure => 1,
            ReplyCode::NotAllowed => 2,
            ReplyCode::NetworkUnreachable => 3,
            ReplyCode::HostUnreachable => 4,
            ReplyCode::ConnectionRefused => 5,
            ReplyCode::TtlExpired => 6,
            ReplyCode::CommandNotSupported => 7,
            ReplyCode::AddressTypeNotSupported => 8,
        }),
        Ok(ConnectResult::UdpAssociation(_)) => Ok(200),
        Err(Error::Io(_)) => Err(0),
        Err(Error::Protocol(_)) => Err(1),
        Err(Error::Authentication(_)) => Err(2),
    };
    std::mem::forget(r);
    std::mem::forget(fut);
    Some(out)
}

/// No credentials, CONNECT to an IPv4 literal; symbolic method byte, reply code, reserved byte, bound address.
fn noauth_v4<const SEG: usize, const SCRIPT_LEN: usize>() {
    let script: [u8; 12] = kani::any();
    let dst: [u8; 4] = kani::any();
    let port: u16 = kani::any();
    let mut io = ScriptedIo::<12, 32>::new(script, SCRIPT_LEN, SEG);
    kani::assume(script[6] == ADDRESS_TYPE_IP_V4 || SCRIPT_LEN < 7);
    let r = run(&mut io, None, Request::Connect(Address::IpAddress(IpAddr::from(dst)), port));
    let r = match r {
        None => {
            assert!(false, "C15.pending: the dialogue did not complete although the transport is never pending");
            return;
        }
        Some(r) => r,
    };
    // greeting: VER=5, NMETHODS=2, no-auth twice (no credentials available)
    assert!(io.wlen >= 4 && io.written[0] == 5 && io.written[1] == 2 && io.written[2] == 0 && io.written[3] == 0, "C15.greeting.noauth: greeting must be 05 02 00 00 when no credentials are available");
    let ver_ok = SCRIPT_LEN >= 2 && script[0] == 5;
    let method = script[1];
    if SCRIPT_LEN < 2 {
        assert!(r == Err(0), "C15.trunc.selection: a truncated method selection must be an I/O error");
        assert!(io.wlen == 4, "C15.trunc.selection_silent: nothing may be sent after a failed negotiation");
    } else if !ver_ok {
        assert!(r == Err(1), "C15.selection.version: wrong version in the method selection must be a protocol error");
        assert!(io.wlen == 4, "C15.selection.silent: nothing may be sent after a failed negotiation");
    } else if method != 0 {
        assert!(r == Err(1) || r == Err(2), "C15.selection.not_offered: proceeding although the server selected a method that was not offered (or none)");
        if method == 0xff || method == 2 || method == 0x80 {
            assert!(r == Err(2), "C15.selection.auth_error: 0xff / a known method that was not offered must be an authentication failure");
        }
        assert!(io.wlen == 4, "C15.selection.silent: nothing may be sent after a failed negotiation");
    } else {
        // request: 05 01 00 01 a b c d ph pl
        assert!(io.wlen == 14, "C15.request.len: CONNECT request to an IPv4 literal is 10 bytes");
        assert!(io.written[4] == 5 && io.written[5] == 1 && io.written[6] == 0 && io.written[7] == 1, "C15.request.head: VER CMD RSV ATYP must be 05 01 00 01");
        assert!(io.written[8] == dst[0] && io.written[9] == dst[1] && io.written[10] == dst[2] && io.written[11] == dst[3], "C15.request.addr: destination address altered");
        assert!(io.written[12] == (port >> 8) as u8 && io.written[13] == port as u8, "C15.request.port: port not big-endian");
        // reply: 05 REP 00 01 a b c d p p  = script[2..12]
        if SCRIPT_LEN < 12 {
            // truncated somewhere in the reply: never a success
            assert!(r != Ok(0), "C15.trunc.reply_success: a truncated reply is treated as success");
            if script[2] == 5 && script[3] <= 8 && (SCRIPT_LEN < 5 || script[4] == 0) {
                assert!(r == Err(0), "C15.trunc.reply: a truncated reply must be an I/O error");
            }
        } else if script[2] != 5 {
            assert!(r == Err(1), "C15.reply.version: wrong version in the reply must be a protocol error");
        } else if script[3] > 8 {
            assert!(r == Err(1), "C15.reply.code_unknown: an unassigned reply code must be a protocol error");
        } else if script[4] != 0 {
            assert!(r == Err(1), "C15.reply.reserved: non-zero reserved byte must be a protocol error");
        } else if script[3] == 0 {
            assert!(r == Ok(0), "C15.reply.success: REP=0 must establish the connection");
        } else {
            assert!(r == Ok(1 + script[3]), "C15.reply.failure: REP=1..8 must be reported as that failure");
        }
        kani::cover!(r == Ok(0), "C15.cover.noauth_established");
        kani::cover!(r == Ok(5), "C15.cover.noauth_failure_reply");
    }
    kani::cover!(r == Err(2), "C15.cover.noauth_auth_error");
}

/*@gen
{"name": "c15_noauth_connect_v4_seg{0}_script{1}", "call": "noauth_v4::<{0}, {1}>()", "unwind": 20, "stubs": ["fmt"], "core": true,
 "bound": "no credentials, CONNECT a.b.c.d:port (symbolic); server script of {1} symbolic bytes (full dialogue = 12) delivered in segments of at most {0} byte(s)",
 "desc": "greeting 05 02 00 00; proceeds only if the server selects method 00; request 05 01 00 01 addr port; TcpConnection only for REP=0, Failure(code) for 1..8, error otherwise; truncation at the stated byte is an error; nothing is written after a failed negotiation",
 "encodes": ["socks5_client::connect_inner", "socks5_client::SocksReader::read_reply", "socks5_client::SocksWriter::write_request"],
 "quick": "[(12,12),(1,12),(12,1),(12,5),(1,9),(12,11)]", "thorough": "[(s,l) for s in (1,3) for l in range(0,13) if (s,l) not in [(1,12),(1,9)]]"}
@*/

/// Username/password authentication (RFC 1929) with field lengths U, P.
fn userpass<const U: usize, const P: usize, const NW: usize>() {
    let ub: [u8; U] = kani::any();
    let pb: [u8; P] = kani::any();
    let mut ascii = true;
    let mut i = 0;
    while i < U {
        ascii = ascii && ub[i] < 0x80;
        i += 1;
    }
    let mut i = 0;
    while i < P {
        ascii = ascii && pb[i] < 0x80;
        i += 1;
    }
    kani::assume(ascii);
    let user = unsafe { std::str::from_utf8_unchecked(&ub) };
    let pass = unsafe { std::str::from_utf8_unchecked(&pb) };
    let script: [u8; 14] = kani::any();
    kani::assume(script[0] == 5 && script[1] == 2); // server selects username/password
    kani::assume(script[2] == 1); // auth reply version
    kani::assume(script[4] == 5 && script[6] == 0 && script[7] == ADDRESS_TYPE_IP_V4);
    let mut io = ScriptedIo::<14, NW>::new(script, 14, 14);
    let r = run(&mut io, Some(Authentication::UsernamePassword(Cow::Borrowed(user), Cow::Borrowed(pass))), Request::Connect(Address::IpAddress(IpAddr::from([192, 0, 2, 1])), 443));
    let r = match r {
        None => {
            assert!(false, "C15.pending: the dialogue did not complete although the transport is never pending");
            return;
        }
        Some(r) => r,
    };
    assert!(io.wlen >= 4 && io.written[0] == 5 && io.written[1] == 2 && io.written[2] == 2 && io.written[3] == 0, "C15.greeting.userpass: greeting must offer 02 (username/password) and 00");
    if U > 255 || P > 255 {
        // RFC 1929: ULEN and PLEN are one octet.  The request must fail without a malformed message on the wire.
        assert!(r.is_err(), "C15.auth.overlong_accepted: credentials that do not fit RFC 1929 did not fail the request");
        assert!(io.wlen == 4, "C15.auth.overlong_malformed: a malformed RFC 1929 message (length octet truncated) was sent");
    } else {
        assert!(io.wlen >= 4 + 3 + U + P, "C15.auth.len: RFC 1929 message too short");
        assert!(io.written[4] == 1, "C15.auth.ver: RFC 1929 version must be 01");
        assert!(io.written[5] as usize == U, "C15.auth.ulen: ULEN is not the user name length");
        let mut i = 0;
        while i < U {
            assert!(io.written[6 + i] == ub[i], "C15.auth.user: user name altered");
            i += 1;
        }
        assert!(io.written[6 + U] as usize == P, "C15.auth.plen: PLEN is not the password length");
        let mut i = 0;
        while i < P {
            assert!(io.written[7 + U + i] == pb[i], "C15.auth.pass: password altered");
            i += 1;
        }
        if script[3] != 0 {
            assert!(r == Err(2), "C15.auth.status: a non-zero authentication status must fail the request");
            assert!(io.wlen == 4 + 3 + U + P, "C15.auth.silent: nothing may be sent after a failed authentication");
        } else {
            assert!(io.wlen == 4 + 3 + U + P + 10, "C15.auth.then_request: request must follow a successful authentication");
            if script[5] == 0 {
                assert!(r == Ok(0), "C15.auth.established");
            }
        }
        kani::cover!(r == Ok(0), "C15.cover.userpass_established");
        kani::cover!(r == Err(2), "C15.cover.userpass_rejected");
    }
    kani::cover!(true, "C15.cover.userpass_reached");
}

/*@gen
{"name": "c15_userpass_u{0}_p{1}", "call": "userpass::<{0}, {1}, {2}>()", "unwind": "max({0}, {1}) + 20", "stubs": ["fmt"], "core": true,
 "bound": "user name of exactly {0} and password of exactly {1} ASCII bytes (symbolic); server selects method 02; symbolic authentication status and reply code",
 "desc": "RFC 1929 message is 01 ULEN user PLEN pass with exact lengths, or - when a field exceeds 255 bytes - the request fails before any byte of the message is written; a non-zero status fails the request",
 "encodes": ["socks5_client::SocksWriter::write_authentication_message", "socks5_client::SocksReader::read_authentication_response"],
 "quick": "[(1,1,32),(0,3,32),(3,0,32)]", "thorough": "[(255,1,300),(256,1,300),(1,256,300),(2,255,300)]"}
@*/

/// CONNECT to a domain name of length L.
fn domain<const L: usize, const NW: usize>() {
    let nb: [u8; L] = kani::any();
    let mut ascii = true;
    let mut i = 0;
    while i < L {
        ascii = ascii && nb[i] < 0x80;
        i += 1;
    }
    kani::assume(ascii);
    let name = unsafe { std::str::from_utf8_unchecked(&nb) };
    let port: u16 = kani::any();
    let script: [u8; 12] = kani::any();
    kani::assume(script[0] == 5 && script[1] == 0 && script[2] == 5 && script[4] == 0 && script[5] == ADDRESS_TYPE_IP_V4);
    let mut io = ScriptedIo::<12, NW>::new(script, 12, 12);
    let r = run(&mut io, None, Request::Connect(Address::DomainName(Cow::Borrowed(name)), port));
    let r = match r {
        None => {
            assert!(false, "C15.pending: the dialogue did not complete although the transport is never pending");
            return;
        }
        Some(r) => r,
    };
    if L > 255 {
        assert!(r.is_err(), "C15.domain.overlong_accepted: a domain name longer than 255 bytes did not fail the request");
        assert!(io.wlen == 4, "C15.domain.overlong_malformed: a malformed request was sent for an over-long domain name");
    } else {
        assert!(io.wlen == 4 + 5 + L + 2, "C15.domain.len: request length");
        assert!(io.written[4] == 5 && io.written[5] == 1 && io.written[6] == 0 && io.written[7] == 3, "C15.domain.head: VER CMD RSV ATYP must be 05 01 00 03");
        assert!(io.written[8] as usize == L, "C15.domain.name_len: length octet is not the name length");
        let mut i = 0;
        while i < L {
            assert!(io.written[9 + i] == nb[i], "C15.domain.name: domain name altered");
            i += 1;
        }
        assert!(io.written[9 + L] == (port >> 8) as u8 && io.written[10 + L] == port as u8, "C15.domain.port: port not big-endian after the name");
    }
    kani::cover!(true, "C15.cover.domain_reached");
}

/*@gen
{"name": "c15_connect_domain_len{0}", "call": "domain::<{0}, {1}>()", "unwind": "{0} + 20", "stubs": ["fmt"], "core": true,
 "bound": "CONNECT to a domain name of exactly {0} ASCII bytes (symbolic), symbolic port",
 "desc": "request is 05 01 00 03 LEN name port, or fails without sending a malformed request when the name exceeds 255 bytes",
 "encodes": ["socks5_client::SocksWriter::write_request"],
 "quick": "[(1,40),(4,40)]", "thorough": "[(0,40),(255,300),(256,300)]"}
@*/
