//! C15 — SOCKS5 client dialogue against a scripted in-memory server.
//! @encodes socks5_client::SocksWriter::{write_selection_message, write_authentication_message, write_request}
//! @encodes socks5_client::SocksReader::{read_selection_response, read_authentication_response, read_reply}
//! @assume socks5_client::connect_inner itself is NOT encoded: its UDP ASSOCIATE branch owns a tokio::net::UdpSocket, and any code that reaches tokio's runtime context (even only through drop glue) makes the Kani compiler crash (kani-compiler/src/intrinsics.rs:243).  The message writers and readers it is composed of are examined one by one; the three-line negotiation match between them is outside the claim
//! @assume the transport is a scripted in-memory AsyncRead+AsyncWrite that is never pending, delivers the server's bytes in segments of 1 byte or all-at-once (instances) and reports EOF after its script; field lengths are concrete per instance, contents symbolic
//! @assume error-message formatting (alloc::fmt::format) is stubbed out
use super::*;
use crate::verif_env::{fmt_format_stub, poll_n, ScriptedIo};


fn done<T>(r: Option<T>) -> T {
    match r {
        Some(x) => x,
        None => {
            assert!(false, "C15.pending: a dialogue step did not complete although the transport is never pending");
            loop {}
        }
    }
}

fn err_kind<T>(r: &Result<T, Error>) -> u8 {
    match r {
        Ok(_) => 0,
        Err(Error::Io(_)) => 1,
        Err(Error::Protocol(_)) => 2,
        Err(Error::Authentication(_)) => 3,
    }
}

// @harness tier=quick core=yes bound="every pair of offered methods"
// @desc the greeting is 05 NMETHODS methods... with NMETHODS equal to the number of methods offered
// @encodes socks5_client::SocksWriter::write_selection_message
#[kani::proof]
#[kani::unwind(40)]
#[kani::stub(alloc::fmt::format, fmt_format_stub)]
fn c15_greeting_layout() {
    let pick = |x: u8| match x % 3 {
        0 => AuthenticationMethod::NoAuth,
        1 => AuthenticationMethod::UsernamePassword,
        _ => AuthenticationMethod::ExtendedAuth,
    };
    let (a, b): (u8, u8) = (kani::any(), kani::any());
    let methods = [pick(a), pick(b)];
    let mut io = ScriptedIo::<1, 16>::new([0], 0, 1);
    let r = {
        let mut fut = io.write_selection_message(&methods);
        let r = done(poll_n(&mut fut, 2));
        std::mem::forget(fut);
        r
    };
    assert!(r.is_ok(), "C15.greeting.err");
    assert!(io.wlen == 4 && io.written[0] == 5 && io.written[1] == 2, "C15.greeting.head: greeting must be 05 02 m1 m2");
    assert!(io.written[2] == methods[0].to_u8() && io.written[3] == methods[1].to_u8(), "C15.greeting.methods: offered methods altered");
    std::mem::forget(r);
}

/// Method selection reply: VER METHOD, delivered in segments of SEG bytes, truncated to LEN bytes.
fn selection<const SEG: usize, const LEN: usize>() {
    let script: [u8; 2] = kani::any();
    let mut io = ScriptedIo::<2, 4>::new(script, LEN, SEG);
    let r = {
        let mut fut = io.read_selection_response();
        let r = done(poll_n(&mut fut, 2));
        std::mem::forget(fut);
        r
    };
    if LEN < 2 && !(LEN == 1 && script[0] != 5) {
        assert!(err_kind(&r) == 1, "C15.selection.trunc: a truncated method selection must be an I/O error");
    } else if script[0] != 5 {
        assert!(err_kind(&r) == 2, "C15.selection.version: wrong version must be a protocol error");
    } else {
        let m = script[1];
        match &r {
            Ok(x) => assert!(x.to_u8() == m && (m == 0 || m == 2 || m == 0x80 || m == 0xff), "C15.selection.method: selected method misread"),
            Err(_) => assert!(!(m == 0 || m == 2 || m == 0x80 || m == 0xff) && err_kind(&r) == 2, "C15.selection.reject: a known method byte is rejected / an unknown one is not a protocol error"),
        }
        kani::cover!(r.is_ok(), "C15.cover.selection_ok");
    }
    kani::cover!(r.is_err(), "C15.cover.selection_err");
    std::mem::forget(r);
}

/*@gen
{"name": "c15_selection_reply_seg{0}_len{1}", "call": "selection::<{0}, {1}>()", "unwind": 40, "stubs": ["fmt"], "core": true,
 "bound": "method-selection reply of {1} symbolic byte(s) (2 = complete) delivered in segments of at most {0} byte(s)",
 "desc": "VER must be 5; the method byte is reported exactly (00, 02, 80, ff) or rejected as a protocol error; truncation is an I/O error; same result for every segmentation",
 "encodes": ["socks5_client::SocksReader::read_selection_response"],
 "quick": "[(2,2),(1,2),(2,1),(2,0)]"}
@*/

/// RFC 1929 message for field lengths U, P (NW = capacity of the recording transport).
fn userpass<const U: usize, const P: usize, const NW: usize>() {
    let ub: [u8; U] = kani::any();
    let pb: [u8; P] = kani::any();
    let mut ascii = true;
    let mut i = 0;
    while i < U {
        ascii = ascii && ub[i] < 0x80;
        i += 1;
    }
    let mut i = 0;
    while i < P {
        ascii = ascii && pb[i] < 0x80;
        i += 1;
    }
    kani::assume(ascii);
    let user = unsafe { std::str::from_utf8_unchecked(&ub) };
    let pass = unsafe { std::str::from_utf8_unchecked(&pb) };
    let auth = std::mem::ManuallyDrop::new(Authentication::UsernamePassword(Cow::Borrowed(user), Cow::Borrowed(pass)));
    let mut io = ScriptedIo::<1, NW>::new([0], 0, 1);
    let r = {
        let mut fut = io.write_authentication_message(&auth);
        let r = done(poll_n(&mut fut, 2));
        std::mem::forget(fut);
        r
    };
    if U > 255 || P > 255 {
        // RFC 1929: ULEN and PLEN are one octet.  The request must fail without a malformed message on the wire.
        assert!(r.is_err(), "C15.auth.overlong_accepted: credentials that do not fit RFC 1929 did not fail the request");
        assert!(io.wlen == 0, "C15.auth.overlong_malformed: a malformed RFC 1929 message (length octet truncated) was sent");
    } else {
        assert!(r.is_ok(), "C15.auth.err: writing well-formed credentials failed");
        assert!(io.wlen == 3 + U + P, "C15.auth.len: RFC 1929 message must be 01 ULEN user PLEN pass");
        assert!(io.written[0] == 1, "C15.auth.ver: RFC 1929 version must be 01");
        assert!(io.written[1] as usize == U, "C15.auth.ulen: ULEN is not the user name length");
        let mut i = 0;
        while i < U {
            assert!(io.written[2 + i] == ub[i], "C15.auth.user: user name altered");
            i += 1;
        }
        assert!(io.written[2 + U] as usize == P, "C15.auth.plen: PLEN is not the password length");
        let mut i = 0;
        while i < P {
            assert!(io.written[3 + U + i] == pb[i], "C15.auth.pass: password altered");
            i += 1;
        }
    }
    kani::cover!(true, "C15.cover.userpass_reached");
    std::mem::forget(r);
}

/*@gen
{"name": "c15_userpass_u{0}_p{1}", "call": "userpass::<{0}, {1}, {2}>()", "unwind": "max({0}, {1}) + 20", "stubs": ["fmt"], "core": true,
 "bound": "user name of exactly {0} and password of exactly {1} ASCII bytes (symbolic contents)",
 "desc": "the RFC 1929 message is 01 ULEN user PLEN pass with exact lengths, or - when a field exceeds 255 bytes - the step fails before any byte is written",
 "encodes": ["socks5_client::SocksWriter::write_authentication_message"],
 "quick": "[(1,1,16),(0,3,16),(3,0,16),(256,1,8),(1,256,8)]", "thorough": "[(255,1,300),(2,255,300),(300,300,8)]"}
@*/

/// Authentication status reply: VER STATUS.
// @harness tier=quick core=yes bound="every 2-byte authentication reply"
// @desc version must be 01 and a non-zero status fails the request as an authentication error
// @encodes socks5_client::SocksReader::read_authentication_response
#[kani::proof]
#[kani::unwind(40)]
#[kani::stub(alloc::fmt::format, fmt_format_stub)]
fn c15_auth_status_reply() {
    let script: [u8; 2] = kani::any();
    let mut io = ScriptedIo::<2, 4>::new(script, 2, 2);
    let r = {
        let mut fut = io.read_authentication_response();
        let r = done(poll_n(&mut fut, 2));
        std::mem::forget(fut);
        r
    };
    if script[0] != 1 {
        assert!(err_kind(&r) == 2, "C15.authreply.version: wrong sub-negotiation version must be a protocol error");
    } else if script[1] != 0 {
        assert!(err_kind(&r) == 3, "C15.authreply.status: a non-zero status must fail the request as an authentication failure");
    } else {
        assert!(r.is_ok(), "C15.authreply.ok: status 00 must be accepted");
    }
    std::mem::forget(r);
}

/// CONNECT request: KIND 0 = IPv4, 1 = IPv6, 2 = domain name of L bytes.
fn request<const KIND: usize, const L: usize, const NW: usize>() {
    let nb: [u8; L] = kani::any();
    let mut ascii = true;
    let mut i = 0;
    while i < L {
        ascii = ascii && nb[i] < 0x80;
        i += 1;
    }
    kani::assume(ascii);
    let name = unsafe { std::str::from_utf8_unchecked(&nb) };
    let a4: [u8; 4] = kani::any();
    let a6: [u8; 16] = kani::any();
    let port: u16 = kani::any();
    let dest = std::mem::ManuallyDrop::new(match KIND {
        0 => Address::IpAddress(IpAddr::from(a4)),
        1 => Address::IpAddress(IpAddr::from(a6)),
        _ => Address::DomainName(Cow::Borrowed(name)),
    });
    let mut io = ScriptedIo::<1, NW>::new([0], 0, 1);
    let r = {
        let mut fut = io.write_request(0x01, &dest, port);
        let r = done(poll_n(&mut fut, 2));
        std::mem::forget(fut);
        r
    };
    if KIND == 2 && L > 255 {
        assert!(r.is_err(), "C15.request.overlong_accepted: a domain name longer than 255 bytes did not fail the request");
        assert!(io.wlen == 0, "C15.request.overlong_malformed: a malformed request was sent for an over-long domain name");
    } else {
        assert!(r.is_ok(), "C15.request.err: writing a well-formed request failed");
        let alen = match KIND {
            0 => 4,
            1 => 16,
            _ => 1 + L,
        };
        assert!(io.wlen == 4 + alen + 2, "C15.request.len: request length");
        assert!(io.written[0] == 5 && io.written[1] == 1 && io.written[2] == 0, "C15.request.head: VER CMD RSV must be 05 01 00");
        assert!(io.written[3] == match KIND { 0 => 1, 1 => 4, _ => 3 }, "C15.request.atyp: address type does not match the destination");
        let mut i = 0;
        while i < alen {
            let want = match KIND {
                0 => a4[i],
                1 => a6[i],
                _ => if i == 0 { L as u8 } else { nb[i - 1] },
            };
            assert!(io.written[4 + i] == want, "C15.request.addr: destination address / name altered");
            i += 1;
        }
        assert!(io.written[4 + alen] == (port >> 8) as u8 && io.written[5 + alen] == port as u8, "C15.request.port: port not big-endian after the address");
    }
    kani::cover!(true, "C15.cover.request_reached");
    std::mem::forget(r);
}

/*@gen
{"name": "c15_request_{3}", "call": "request::<{0}, {1}, {2}>()", "unwind": "{1} + 24", "stubs": ["fmt"], "core": true,
 "bound": "CONNECT request to {3} (address / name contents and port symbolic)",
 "desc": "the request is 05 01 00 ATYP addr port with the destination's own address type, or fails without writing anything when the domain name exceeds 255 bytes",
 "encodes": ["socks5_client::SocksWriter::write_request"],
 "quick": "[(0,0,32,'ipv4'),(1,0,32,'ipv6'),(2,1,32,'domain1'),(2,4,32,'domain4'),(2,256,8,'domain256')]", "thorough": "[(2,0,32,'domain0'),(2,255,300,'domain255')]"}
@*/

/// Server reply VER REP RSV ATYP BND.ADDR BND.PORT with an IPv4 bound address (10 bytes), truncated to LEN, segments of SEG.
fn reply_v4<const SEG: usize, const LEN: usize>() {
    let script: [u8; 10] = kani::any();
    kani::assume(script[3] == ADDRESS_TYPE_IP_V4 || LEN < 4);
    let mut io = ScriptedIo::<10, 4>::new(script, LEN, SEG);
    let r = {
        let mut fut = io.read_reply();
        let r = done(poll_n(&mut fut, 2));
        std::mem::forget(fut);
        r
    };
    let hdr_ok = script[0] == 5 && script[1] <= 8 && script[2] == 0;
    if LEN == 10 {
        if script[0] != 5 {
            assert!(err_kind(&r) == 2, "C15.reply.version: wrong version must be a protocol error");
        } else if script[1] > 8 {
            assert!(err_kind(&r) == 2, "C15.reply.code_unknown: an unassigned reply code must be a protocol error");
        } else if script[2] != 0 {
            assert!(err_kind(&r) == 2, "C15.reply.reserved: a non-zero reserved byte must be a protocol error");
        } else {
            match &r {
                Ok(rep) => {
                    assert!(ReplyCode::from_u8(script[1]).as_ref() == Some(&rep.code), "C15.reply.code: reply code misread");
                    assert!(rep.bound_port == u16::from_be_bytes([script[8], script[9]]), "C15.reply.port: bound port misread");
                    assert!((rep.code == ReplyCode::Succeeded) == (script[1] == 0), "C15.reply.success: success must be REP = 00 and nothing else");
                }
                Err(_) => assert!(false, "C15.reply.rejected: a well-formed reply is rejected"),
            }
            kani::cover!(script[1] == 0, "C15.cover.reply_success");
            kani::cover!(script[1] == 4, "C15.cover.reply_host_unreachable");
        }
    } else {
        // truncated: never a success; an I/O error unless an earlier byte already made it a protocol error
        assert!(r.is_err(), "C15.reply.trunc_accepted: a truncated reply is accepted");
        let seen_bad = (LEN >= 1 && script[0] != 5) || (LEN >= 2 && script[1] > 8) || (LEN >= 3 && script[2] != 0);
        if !seen_bad {
            assert!(err_kind(&r) == 1, "C15.reply.trunc: a truncated reply must be an I/O error");
        }
        let _ = hdr_ok;
    }
    kani::cover!(r.is_err(), "C15.cover.reply_err");
    std::mem::forget(r);
}

/*@gen
{"name": "c15_reply_v4_seg{0}_len{1}", "call": "reply_v4::<{0}, {1}>()", "unwind": 40, "stubs": ["fmt"], "core": true,
 "bound": "server reply with an IPv4 bound address: {1} symbolic byte(s) of the 10, delivered in segments of at most {0} byte(s)",
 "desc": "every REP / RSV / VER value: success only for 00, failure codes 01..08 reported as such, everything else a protocol error; truncation after any byte is an error; same result for every segmentation",
 "encodes": ["socks5_client::SocksReader::read_reply"],
 "quick": "[(10,10),(1,10),(3,10),(10,0),(10,3),(10,9)]", "thorough": "[(s,l) for s in (1,4) for l in range(0,11) if (s,l) != (1,10)]"}
@*/
