//! C03 — the egress decision in TcpForwarder::connect: which destinations are refused, how the refusal is reported,
//! and that the address connected to is the very address that passed the check.
//! @encodes tcp_forwarder::TcpForwarder::connect
//! @encodes net_utils::is_global_ip
//! @cut K1 K7
//! @assume the resolver and the connect attempt are stand-ins (cut K7): the resolver answers with a harness-chosen list of 0..=2 symbolic socket addresses (every IPv4 / IPv6 value, every order) or fails; the connect attempt records its argument and fails with ConnectionRefused; the Context is fabricated with only `settings` initialised
//! @assume "must be refused" / "must be allowed" are the two-sided IANA sets of kani/C03/net_utils.rs; addresses in neither set carry no obligation
use super::*;
use crate::core::verif_c03::fabricate_context;
use crate::net_utils::verif_c03::{ref_must_allow, ref_must_refuse};
use crate::verif_env::{fmt_format_stub, netstub, poll_n};
use std::net::{IpAddr, Ipv4Addr, Ipv6Addr, SocketAddr};

fn any_addr<const V6: bool>() -> SocketAddr {
    let port: u16 = kani::any();
    if V6 {
        let o: [u8; 16] = kani::any();
        SocketAddr::new(IpAddr::V6(Ipv6Addr::from(o)), port)
    } else {
        let o: [u8; 4] = kani::any();
        SocketAddr::new(IpAddr::V4(Ipv4Addr::from(o)), port)
    }
}

fn is_loopback_like(ip: &IpAddr) -> bool {
    match ip {
        IpAddr::V4(a) => a.octets()[0] == 127,
        IpAddr::V6(a) => {
            let o = a.octets();
            let mut hi_zero = true;
            let mut i = 0;
            while i < 10 {
                hi_zero = hi_zero && o[i] == 0;
                i += 1;
            }
            (hi_zero && o[10] == 0 && o[11] == 0 && o[12] == 0 && o[13] == 0 && o[14] == 0 && o[15] == 1)
                || (hi_zero && o[10] == 0xff && o[11] == 0xff && o[12] == 127)
        }
    }
}

fn run_connect(ctx: &std::sync::Arc<crate::core::Context>, destination: TcpDestination) -> Option<Result<(), u8>> {
    // Err(1) = DnsLoopback, Err(2) = DnsNonroutable, Err(3) = Io / other (what the stand-in connect returns, or a resolver failure)
    let f = Box::new(TcpForwarder::new(ctx.clone()));
    let meta = forwarder::TcpConnectionMeta {
        client_address: IpAddr::from([203, 0, 113, 1]),
        destination,
        auth: None,
        tls_domain: String::new(),
        user_agent: None,
    };
    let mut fut = TcpConnector::connect(f, log_utils::IdChain::empty(), meta);
    let r = poll_n(&mut fut, 2)?;
    let out = match &r {
        Ok(_) => Ok(()),
        Err(tunnel::ConnectionError::DnsLoopback) => Err(1),
        Err(tunnel::ConnectionError::DnsNonroutable) => Err(2),
        Err(_) => Err(3),
    };
    std::mem::forget(r);
    std::mem::forget(fut);
    Some(out)
}

fn literal<const V6: bool>() {
    let allow_private: bool = kani::any();
    let (mut sa, mut ca);
    let ctx = fabricate_context!(sa, ca, crate::settings::verif_c03::settings(allow_private, kani::any()));
    let dst = any_addr::<V6>();
    netstub::reset([None, None], false);
    let r = match run_connect(&ctx, TcpDestination::Address(dst)) {
        Some(r) => r,
        None => {
            assert!(false, "C03.connect.pending: connect did not complete although nothing is pending");
            return;
        }
    };
    let ip = dst.ip();
    match r {
        Err(1) | Err(2) => {
            assert!(netstub::connect_calls() == 0, "C03.connect.refused_but_attempted: a refused destination was connected to");
            assert!(!allow_private, "C03.connect.refused_allowed: a destination is refused although private-network connections are allowed");
            assert!(!ref_must_allow(&ip), "C03.connect.refuses_global: a globally routable destination is refused");
            if r == Err(1) {
                assert!(is_loopback_like(&ip), "C03.connect.loopback_code: the loopback warning (311) is given for an address that is not loopback");
            }
            if let IpAddr::V4(a) = ip {
                if a.octets()[0] == 127 {
                    assert!(r == Err(1), "C03.connect.loopback_missed: a loopback destination must be reported as loopback (311)");
                }
            }
        }
        Err(_) => {
            // the stand-in connect was reached and failed
            assert!(netstub::connect_calls() == 1, "C03.connect.once: the connection must be attempted exactly once");
            assert!(netstub::connected_to() == Some(dst), "C03.connect.same_address: the address connected to is not the address that passed the check");
            assert!(allow_private || !ref_must_refuse(&ip), "C03.connect.private_attempted: a connection to a loopback / private / link-local / reserved destination was attempted although they are disallowed");
        }
        Ok(()) => assert!(false, "C03.connect.ok: the stand-in connect never succeeds"),
    }
    kani::cover!(r == Err(1), "C03.cover.literal_loopback");
    kani::cover!(r == Err(2), "C03.cover.literal_nonroutable");
    kani::cover!(r == Err(3) && !allow_private, "C03.cover.literal_attempted_with_policy");
}

/*@gen
{"name": "c03_connect_literal_{1}", "call": "literal::<{0}>()", "unwind": 12, "stubs": ["fmt", "nofree", "#[kani::stub(<std::sync::Arc<crate::core::Context> as std::ops::Drop>::drop, crate::verif_env::arc_ctx_drop_noop)]"], "core": true,
 "bound": "literal destination: every {1} socket address; both values of allow_private_network_connections and ipv6_available",
 "desc": "a must-refuse literal is never connected to and is reported as 311 (loopback) / 310; a must-allow literal is never refused; whatever is connected to is the very address of the request, attempted exactly once",
 "encodes": ["tcp_forwarder::TcpForwarder::connect"],
 "quick": "[('false','IPv4'),('true','IPv6')]"}
@*/

/// Host-name destination: the resolver's answer is a list of 0..=2 addresses of families F1, F2 (order as given).
fn hostname<const N: usize, const F1V6: bool, const F2V6: bool>() {
    let allow_private: bool = kani::any();
    let ipv6_available: bool = kani::any();
    let (mut sa, mut ca);
    let ctx = fabricate_context!(sa, ca, crate::settings::verif_c03::settings(allow_private, ipv6_available));
    let a1 = any_addr::<F1V6>();
    let a2 = any_addr::<F2V6>();
    let list = [if N >= 1 { Some(a1) } else { None }, if N >= 2 { Some(a2) } else { None }];
    let fails: bool = kani::any();
    netstub::reset(list, fails);
    let name: &'static str = "host.example";
    let host = unsafe { String::from_raw_parts(name.as_ptr() as *mut u8, name.len(), name.len()) };
    let r = match run_connect(&ctx, TcpDestination::HostName((std::mem::ManuallyDrop::into_inner(std::mem::ManuallyDrop::new(host)), 443))) {
        Some(r) => r,
        None => {
            assert!(false, "C03.resolve.pending: connect did not complete although nothing is pending");
            return;
        }
    };
    assert!(netstub::resolve_calls() == 1, "C03.resolve.once: the name must be resolved exactly once");
    let usable = |a: &SocketAddr| -> bool { !(a.is_ipv6() && !ipv6_available) };
    if netstub::connect_calls() > 0 {
        assert!(!fails, "C03.resolve.failed_but_connected");
        assert!(netstub::connect_calls() == 1, "C03.resolve.connect_once: the connection must be attempted exactly once");
        let to = netstub::connected_to().unwrap();
        assert!((N >= 1 && to == a1) || (N >= 2 && to == a2), "C03.resolve.foreign_address: the address connected to is not one of the resolver's answers");
        assert!(usable(&to), "C03.resolve.ipv6_unavailable: an IPv6 address was chosen although IPv6 is not available");
        assert!(allow_private || !ref_must_refuse(&to.ip()), "C03.resolve.private_attempted: a name resolving to a loopback / private / link-local / reserved address was connected to although such destinations are disallowed");
    } else if !fails {
        // nothing was attempted: then no usable, plainly global answer may have been available
        let ok1 = N >= 1 && usable(&a1) && (allow_private || ref_must_allow(&a1.ip()));
        let ok2 = N >= 2 && usable(&a2) && (allow_private || ref_must_allow(&a2.ip()));
        assert!(!ok1 && !ok2, "C03.resolve.refuses_global: a name with a usable globally routable answer is refused");
        assert!(r.is_err(), "C03.resolve.no_attempt_ok");
    }
    kani::cover!(netstub::connect_calls() == 1 && N == 2 && netstub::connected_to() == Some(a2), "C03.cover.resolve_second_answer_chosen");
    kani::cover!(r == Err(1), "C03.cover.resolve_loopback");
    kani::cover!(r == Err(2), "C03.cover.resolve_nonroutable");
}

/*@gen
{"name": "c03_connect_hostname_{3}", "call": "hostname::<{0}, {1}, {2}>()", "unwind": 12, "stubs": ["fmt", "nofree", "#[kani::stub(<std::sync::Arc<crate::core::Context> as std::ops::Drop>::drop, crate::verif_env::arc_ctx_drop_noop)]"], "core": true,
 "bound": "host-name destination whose resolver answer is {3} (every address value, this order), or a resolver failure; both values of the two policy switches",
 "desc": "the address connected to is one of the resolver's answers, usable under ipv6_available and not a must-refuse address (unless private destinations are allowed); a usable globally routable answer is never passed over; one resolution, at most one attempt",
 "encodes": ["tcp_forwarder::TcpForwarder::connect"],
 "quick": "[(0,'false','false','empty'),(1,'false','false','v4'),(1,'true','false','v6'),(2,'false','false','v4_v4'),(2,'true','false','v6_v4'),(2,'false','true','v4_v6')]",
 "thorough": "[(2,'true','true','v6_v6')]"}
@*/
