//! C03 helper: Settings with the two egress switches.
use super::*;

pub(crate) fn settings(allow_private: bool, ipv6_available: bool) -> Settings {
    let mut s = Settings::builder().settings;
    s.allow_private_network_connections = allow_private;
    s.ipv6_available = ipv6_available;
    s
}
