//! C03 helper: a Context of which only `settings` is initialised (TcpForwarder::connect reads nothing else once the
//! metrics guard and the sockets are cut out).
use super::*;

macro_rules! fabricate_context {
    ($sa:ident, $ca:ident, $settings:expr) => {{
        $sa = std::mem::ManuallyDrop::new(crate::verif_env::StackArc::new($settings));
        $ca = std::mem::ManuallyDrop::new(crate::verif_env::StackArc::new(std::mem::MaybeUninit::<crate::core::Context>::uninit()));
        unsafe {
            std::ptr::write(std::ptr::addr_of_mut!((*$ca.data.as_mut_ptr()).settings), $sa.arc());
            std::mem::ManuallyDrop::new(std::mem::transmute::<
                std::sync::Arc<std::mem::MaybeUninit<crate::core::Context>>,
                std::sync::Arc<crate::core::Context>,
            >($ca.arc()))
        }
    }};
}
pub(crate) use fabricate_context;
