//! C08 — HTTP/1.1 codec: request recognition is segmentation-invariant, limits are enforced, and listen() does not spin.
//! @encodes http1_codec::decode_request
//! @encodes http1_codec::encode_response
//! @cut K1
//! @assume the head is a concrete template; cut points are enumerated as instances; Http1Codec::listen itself (tokio select!/mpsc/Notify) makes the Kani compiler crash (intrinsics.rs:243) and is outside the claim: the no-spinning clause is NOT decided by this check (see DESIGN 7.4 C08)
use super::*;
use crate::http_codec::HttpCodec as _;
use crate::verif_env::{fmt_format_stub, poll_n, set_tick_limit, ScriptedIo, StackArc};
use std::mem::ManuallyDrop;

const HEAD: &[u8; 42] = b"CONNECT example.org:443 HTTP/1.1\r\nA: b\r\n\r\n";

/// decode_request on the first N bytes of HEAD ++ "xy" (N = 44 is the whole head plus two payload bytes).
/// Http1Codec re-parses the accumulated buffer from scratch on every read, so "same request for every
/// segmentation" reduces to: every strict prefix is Partial and leaves the bytes untouched, the full head is
/// Complete with the same request and the payload bytes as tail.
fn prefix<const N: usize>() {
    let mut all = [0u8; 44];
    let mut i = 0;
    while i < 42 {
        all[i] = HEAD[i];
        i += 1;
    }
    let p0: u8 = kani::any();
    let p1: u8 = kani::any();
    all[42] = p0;
    all[43] = p1;
    // the buffer handed to the parser is backed by this stack array (heap copies are not constant-folded by symex)
    let mut store = ManuallyDrop::new([0u8; N]);
    let mut i = 0;
    while i < N {
        store[i] = all[i];
        i += 1;
    }
    let buf = BytesMut::from(bytes::Bytes::from(crate::verif_env::stack_vec(&mut store)));
    let r = decode_request(buf, MAX_HEADERS_NUM, MAX_RAW_HEADERS_SIZE);
    match &r {
        Ok(DecodeStatus::Partial(b)) => {
            assert!(N < 42, "C08.decode.partial_full: a complete head is reported incomplete");
            assert!(b.len() == N, "C08.decode.partial_len: bytes of an incomplete head are lost or duplicated");
            let mut i = 0;
            while i < N {
                assert!(b[i] == all[i], "C08.decode.partial_bytes: bytes of an incomplete head are altered");
                i += 1;
            }
            kani::cover!(true, "C08.cover.partial");
        }
        Ok(DecodeStatus::Complete(req, tail)) => {
            assert!(N >= 42, "C08.decode.complete_early: a request is recognised before its head is complete");
            assert!(req.method == http::Method::CONNECT, "C08.decode.method");
            assert!(req.uri.authority().map(|a| a.as_str()) == Some("example.org:443"), "C08.decode.target");
            assert!(req.headers.len() == 1, "C08.decode.headers");
            assert!(tail.len() == N - 42, "C08.decode.tail_len: the bytes after the head (first payload bytes) are lost or duplicated");
            if N > 42 {
                assert!(tail[0] == p0, "C08.decode.tail_bytes: payload bytes altered");
            }
            if N > 43 {
                assert!(tail[1] == p1, "C08.decode.tail_bytes: payload bytes altered");
            }
            kani::cover!(true, "C08.cover.complete");
        }
        Err(_) => assert!(false, "C08.decode.rejected: a prefix of a well-formed head is rejected"),
    }
    std::mem::forget(r);
}

/*@gen
{"name": "c08_decode_request_prefix{0}", "call": "prefix::<{0}>()", "unwind": 46, "stubs": ["fmt", "utf8", "bytes", "bytesmut", "nofree"], "core": true,
 "bound": "the first {0} bytes of 'CONNECT example.org:443 HTTP/1.1 CRLF A: b CRLF CRLF' (42 bytes) followed by two symbolic payload bytes",
 "desc": "every strict prefix of the head parses as Partial with the bytes untouched (so accumulation across reads is lossless); the complete head yields the same request and exactly the payload bytes as tail",
 "encodes": ["http1_codec::decode_request"],
 "quick": "[1, 20, 41, 42, 44]", "thorough": "[n for n in range(2, 45) if n not in (20, 41, 42, 44)]"}
@*/

/// Size and header-count limits (the call site passes MAX_RAW_HEADERS_SIZE = 1024 and MAX_HEADERS_NUM = 32).
// @harness tier=quick core=yes bound="a 12-byte incomplete head against a buffer cap of 12 / 13 bytes; three headers against 2 / 3 header slots"
// @desc an incomplete head that has reached the size cap is rejected rather than buffered further; a head with more headers than slots is rejected
// @encodes http1_codec::decode_request
#[kani::proof]
#[kani::unwind(46)]
#[kani::stub(alloc::fmt::format, fmt_format_stub)]
#[kani::stub(std::str::from_utf8, crate::verif_env::from_utf8_accept)]
#[kani::stub(<std::alloc::Global as std::alloc::Allocator>::deallocate, crate::verif_env::global_dealloc_noop)]
fn c08_decode_request_limits() {
    assert!(MAX_RAW_HEADERS_SIZE == 1024 && MAX_HEADERS_NUM == 32, "C08.limits.constants: documented limits changed");
    let mut part = ManuallyDrop::new(*b"CONNECT a:1 ");
    let cap: usize = if kani::any() { 12 } else { 13 };
    let buf = BytesMut::from(bytes::Bytes::from(crate::verif_env::stack_vec(&mut part)));
    let r = decode_request(buf, 4, cap);
    if cap <= 12 {
        assert!(r.is_err(), "C08.limits.size: an incomplete head that reached the size limit keeps being buffered");
    } else {
        assert!(matches!(r, Ok(DecodeStatus::Partial(_))), "C08.limits.size_below: an incomplete head below the limit must be kept");
    }
    std::mem::forget(r);
    let mut three = ManuallyDrop::new(*b"GET / HTTP/1.1\r\nA: 1\r\nB: 2\r\nC: 3\r\n\r\n");
    let slots: usize = if kani::any() { 2 } else { 3 };
    let buf = BytesMut::from(bytes::Bytes::from(crate::verif_env::stack_vec(&mut three)));
    let r = decode_request(buf, slots, 1024);
    if slots < 3 {
        assert!(r.is_err(), "C08.limits.headers: a head with more headers than the limit is accepted");
    }
    kani::cover!(slots == 3 && r.is_ok(), "C08.cover.limits_three_headers_ok");
    std::mem::forget(r);
}
