//! C13 — settings validation and credential extraction.
//! @encodes settings::Settings::validate
//! @encodes settings::ReverseProxySettings::validate
//! @encodes settings::demangle_toml_string / client credential extraction in deserialize_clients
//! @assume toml_edit, serde and the file system are outside the claim; an `Item` is taken as toml_edit produces it (value string = the TOML-decoded string, Display = decor + raw literal)
use super::*;
use crate::verif_env::fmt_format_stub;
use std::mem::ManuallyDrop;
use std::net::{IpAddr, Ipv4Addr, Ipv6Addr};

/// Start-up refusals of CONFIGURATION.md / Settings::validate's own documentation:
/// no listen address, invalid reverse proxy section, no listen protocol, no credentials on a non-loopback address.
fn validate_table<const V6: bool, const MASK: usize>() {
    let mut s = ManuallyDrop::new(Settings::builder().settings);
    let port: u16 = kani::any();
    let a4: [u8; 4] = kani::any();
    let a6: [u8; 16] = kani::any();
    let ip = if V6 { IpAddr::V6(Ipv6Addr::from(a6)) } else { IpAddr::V4(Ipv4Addr::from(a4)) };
    s.listen_address = SocketAddr::new(ip, port);
    let (h1, h2, h3): (bool, bool, bool) = (kani::any(), kani::any(), kani::any());
    s.listen_protocols.http1 = if h1 { Some(Http1Settings::builder().build()) } else { None };
    s.listen_protocols.http2 = if h2 { Some(Http2Settings::builder().build()) } else { None };
    s.listen_protocols.quic = if h3 { Some(QuicSettings::builder().build()) } else { None };
    let with_clients: bool = kani::any();
    if with_clients {
        s.clients = vec![Client { username: String::from("u"), password: String::from("p") }];
    }
    let rp_port: u16 = kani::any();
    // MASK: 0 = no reverse proxy section, 1 = "", 2 = "/", 3 = "/a", 4 = "a"
    let mask: &'static str = match MASK {
        1 => "",
        2 => "/",
        3 => "/a",
        _ => "a",
    };
    if MASK != 0 {
        s.reverse_proxy = Some(ReverseProxySettings {
            server_address: SocketAddr::new(IpAddr::V4(Ipv4Addr::new(127, 0, 0, 1)), rp_port),
            path_mask: unsafe { String::from_raw_parts(mask.as_ptr() as *mut u8, mask.len(), mask.len()) },
            h3_backward_compatibility: false,
        });
    }
    let r = s.validate();
    let unspecified = if V6 { a6 == [0u8; 16] } else { a4 == [0u8; 4] };
    let loopback = if V6 { a6 == [0, 0, 0, 0, 0, 0, 0, 0, 0, 0, 0, 0, 0, 0, 0, 1] } else { a4[0] == 127 };
    let no_address = unspecified && port == 0;
    let bad_rp = MASK != 0 && (rp_port == 0 || MASK == 1 || MASK == 4);
    let no_proto = !h1 && !h2 && !h3;
    let no_creds = !with_clients && !loopback;
    let must_refuse = no_address || bad_rp || no_proto || no_creds;
    assert!(r.is_err() == must_refuse, "C13.validate.table: the endpoint must refuse to start exactly when the listen address is unset, the reverse-proxy section is invalid, no listen protocol is enabled, or no credentials are configured on a non-loopback address");
    if let Err(e) = &r {
        // the variant names the first failing section, in the documented order
        if no_address {
            assert!(matches!(e, ValidationError::ListenAddressNotSet), "C13.validate.variant_address");
        } else if bad_rp {
            assert!(matches!(e, ValidationError::ReverseProxy(_)), "C13.validate.variant_reverse_proxy");
        } else if no_proto {
            assert!(matches!(e, ValidationError::ListenProtocols(_)), "C13.validate.variant_protocols");
        } else {
            assert!(matches!(e, ValidationError::NoCredentialsOnPublicAddress), "C13.validate.variant_credentials");
        }
    }
    kani::cover!(r.is_ok(), "C13.cover.validate_ok");
    kani::cover!(r.is_err(), "C13.cover.validate_refused");
    kani::cover!(no_creds && !no_address && !bad_rp && !no_proto, "C13.cover.validate_no_creds");
    std::mem::forget(r);
}

/*@gen
{"name": "c13_validate_{2}_mask{1}", "call": "validate_table::<{0}, {1}>()", "unwind": 20, "stubs": ["fmt"], "core": true,
 "bound": "listen address: every {2} address and port; every subset of listen protocols; credentials present/absent; reverse-proxy section #{1} (0 absent, 1 '', 2 '/', 3 '/a', 4 'a') with every origin port",
 "desc": "Settings::validate refuses to start exactly in the documented cases and names the failing section",
 "encodes": ["settings::Settings::validate", "settings::ReverseProxySettings::validate"],
 "quick": "[('false',0,'IPv4'),('false',3,'IPv4'),('true',0,'IPv6'),('true',3,'IPv6'),('true',4,'IPv6'),('false',1,'IPv4')]", "thorough": "[('true',2,'IPv6'),('true',1,'IPv6'),('false',2,'IPv4'),('false',4,'IPv4')]"}
@*/

/// reference: decode the body of a TOML basic string (between the quotes); only the escapes \" and \\ occur in the alphabet
fn ref_decode_basic(body: &[u8], out: &mut [u8; 8]) -> Option<usize> {
    let mut n = 0;
    let mut i = 0;
    while i < body.len() {
        if body[i] == b'\\' {
            if i + 1 >= body.len() {
                return None;
            }
            match body[i + 1] {
                b'"' => out[n] = b'"',
                b'\\' => out[n] = b'\\',
                _ => return None,
            }
            i += 2;
        } else if body[i] == b'"' {
            return None;
        } else {
            out[n] = body[i];
            i += 1;
        }
        n += 1;
    }
    Some(n)
}

/// The credential a client is given is the TOML string value.  `extract` is what deserialize_clients applies
/// to the item; the item's Display form is decor + raw literal (here: no decor, a basic string).
fn credential_value<const L: usize>() {
    // raw literal: '"' body(L) '"'
    let body: [u8; L] = kani::any();
    let mut i = 0;
    while i < L {
        kani::assume(body[i] == b'a' || body[i] == b' ' || body[i] == b'"' || body[i] == b'\\');
        i += 1;
    }
    let mut want = [0u8; 8];
    let n = match ref_decode_basic(&body, &mut want) {
        None => return, // not a well-formed literal: toml_edit rejects the file
        Some(n) => n,
    };
    kani::assume(n > 0);
    let mut raw = Vec::with_capacity(L + 2);
    raw.push(b'"');
    raw.extend_from_slice(&body);
    raw.push(b'"');
    let raw = unsafe { String::from_utf8_unchecked(raw) };
    let got = demangle_toml_string(raw);
    let gb = got.as_bytes();
    assert!(gb.len() == n, "C13.creds.value_len: the accepted credential is not the string the TOML literal denotes (length differs)");
    let mut i = 0;
    while i < n {
        assert!(gb[i] == want[i], "C13.creds.value: the accepted credential is not the string the TOML literal denotes");
        i += 1;
    }
    kani::cover!(n < L, "C13.cover.creds_with_escape");
    kani::cover!(n == L, "C13.cover.creds_plain");
}

/*@gen
{"name": "c13_credential_literal_len{0}", "call": "credential_value::<{0}>()", "unwind": "{0} + 6", "stubs": ["fmt"], "core": true,
 "bound": "every TOML basic-string literal whose body has exactly {0} characters over the alphabet a, space, quote, backslash (escapes \\\" and \\\\), without surrounding decor",
 "desc": "the user name / password accepted for a client equals the string its TOML literal denotes (escapes decoded, inner spaces and quotes preserved)",
 "encodes": ["settings::demangle_toml_string"],
 "quick": "[]", "thorough": "[]"}
@*/
