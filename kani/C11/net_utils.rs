//! C11 — Internet checksum (RFC 1071) for every byte string within the bound.
//! @encodes net_utils::rfc1071_checksum
//! @assume reference = RFC 1071 §1 computed with an end-around carry after every 16-bit addition (independent of the deferred-carry implementation); an odd trailing byte is padded with a zero byte on the right
use super::*;

/// RFC 1071: one's-complement sum of the 16-bit big-endian words, end-around carry applied at every step.
pub(super) fn ref_ones_sum(b: &[u8]) -> u16 {
    let n = b.len();
    let mut acc: u16 = 0;
    let mut i = 0;
    while i < n {
        let hi = b[i] as u16;
        let lo = if i + 1 < n { b[i + 1] as u16 } else { 0 };
        let w = (hi << 8) | lo;
        let (t, c) = acc.overflowing_add(w);
        acc = t + (c as u16); // cannot overflow: if c then t <= 0xfffe
        i += 2;
    }
    acc
}

// @harness tier=quick core=yes bound="every byte string of length 0..=12"
// @desc rfc1071_checksum equals the RFC 1071 reference (end-around carry per step) on every input
// @encodes net_utils::rfc1071_checksum
#[kani::proof]
#[kani::unwind(8)]
fn c11_checksum_matches_rfc1071_len12() {
    let buf: [u8; 12] = kani::any();
    let n: usize = kani::any();
    kani::assume(n <= 12);
    let got = rfc1071_checksum(&buf[..n]);
    let want = !ref_ones_sum(&buf[..n]);
    assert!(got == want, "C11.cksum.eq: rfc1071_checksum differs from the RFC 1071 one's-complement checksum");
    kani::cover!(n == 12 && buf[0] == 0xff && buf[1] == 0xff && buf[2] == 0xff, "C11.cover.cksum_carry_region");
    kani::cover!(n % 2 == 1, "C11.cover.cksum_odd_length");
    kani::cover!(n == 0, "C11.cover.cksum_empty");
}

// @harness tier=thorough core=no bound="every byte string of length 0..=24"
// @desc same as the quick harness with longer inputs (more carries can accumulate)
// @encodes net_utils::rfc1071_checksum
#[kani::proof]
#[kani::unwind(14)]
fn c11_checksum_matches_rfc1071_len24() {
    let buf: [u8; 24] = kani::any();
    let n: usize = kani::any();
    kani::assume(n <= 24);
    let got = rfc1071_checksum(&buf[..n]);
    let want = !ref_ones_sum(&buf[..n]);
    assert!(got == want, "C11.cksum.eq: rfc1071_checksum differs from the RFC 1071 one's-complement checksum");
    kani::cover!(n == 24, "C11.cover.cksum_full_length");
    kani::cover!(n % 2 == 1, "C11.cover.cksum_odd_length");
}

fn receiver<const N: usize>() {
    let mut buf: [u8; N] = kani::any();
    buf[2] = 0;
    buf[3] = 0;
    let c = rfc1071_checksum(&buf).to_be_bytes();
    buf[2] = c[0];
    buf[3] = c[1];
    let s = ref_ones_sum(&buf);
    assert!(s == 0xffff, "C11.cksum.receiver: a receiver summing the message (checksum included) does not obtain all ones");
}

/*@gen
{"name": "c11_checksum_verifies_at_receiver_{0}", "call": "receiver::<{0}>()", "unwind": 12, "core": false,
 "bound": "every message of exactly {0} bytes",
 "desc": "a message whose checksum field holds rfc1071_checksum(message with zeroed field) verifies at the receiver: the one's-complement sum over it is 0xffff",
 "encodes": ["net_utils::rfc1071_checksum"],
 "quick": "[4, 7, 10]", "thorough": "range(4, 21)"}
@*/
