//! C11 — ICMP message construction and request matching.
//! @encodes icmp_utils::Echo::serialize
//! @encodes icmp_utils::Message::serialize
//! @encodes icmp_utils::v4::Message::deserialize
//! @encodes icmp_utils::v6::Message::deserialize
//! @encodes icmp_utils::v4::Message::responded_echo_request
//! @encodes icmp_utils::v6::Message::responded_echo_request
//! @encodes net_utils::skip_ipv4_header
//! @encodes net_utils::skip_ipv6_header
//! @assume ICMPv6 checksum: the kernel adds the pseudo-header sum on raw ICMPv6 sockets; only the layout of the v6 echo is claimed, and that its checksum field is the RFC 1071 sum over the message as for v4
//! @assume the quoted datagram oracle leaves an IPv4 quote whose version nibble is not 4 unconstrained (skip_ipv4_header does not look at it)
use super::*;
use crate::verif_env::{drop_bytes_noop, drop_bytesmut_noop, fmt_format_stub, leak, sym_static};

fn ref_ones_sum(b: &[u8]) -> u16 {
    let n = b.len();
    let mut acc: u16 = 0;
    let mut i = 0;
    while i < n {
        let hi = b[i] as u16;
        let lo = if i + 1 < n { b[i + 1] as u16 } else { 0 };
        let (t, c) = acc.overflowing_add((hi << 8) | lo);
        acc = t + (c as u16);
        i += 2;
    }
    acc
}


// --- modular treatment of the checksum -------------------------------------------------------
// `Echo::serialize` is checked against the contract "calls rfc1071_checksum exactly once on the
// message with a zeroed checksum field and stores the result big-endian at offset 2"; the checksum
// function itself is decided for every byte string of the same lengths in kani/C11/net_utils.rs.
// The stub records its argument and returns an arbitrary value chosen by the harness.
static mut CK_ARG: [u8; 48] = [0; 48];
static mut CK_LEN: usize = 0;
static mut CK_CALLS: usize = 0;
static mut CK_RET: u16 = 0;

fn cksum_recording_stub(bytes: &[u8]) -> u16 {
    unsafe {
        CK_CALLS += 1;
        CK_LEN = bytes.len();
        let mut i = 0;
        while i < bytes.len() && i < 48 {
            CK_ARG[i] = bytes[i];
            i += 1;
        }
        CK_RET
    }
}

fn echo_serialize<const N: usize, const TOTAL: usize, const V4: bool>() {
    // TOTAL = N + 8
    let (raw, data) = sym_static::<N>();
    let id: u16 = kani::any();
    let seq: u16 = kani::any();
    let ck: u16 = kani::any();
    unsafe {
        CK_RET = ck;
    }
    let echo = Echo { code: 0, identifier: id, sequence_number: seq, data };
    let msg = if V4 { Message::V4(v4::Message::Echo(echo)) } else { Message::V6(v6::Message::EchoRequest(echo)) };
    let out = msg.serialize();
    // reference message built locally from RFC 792 / RFC 4443 section 4.1, checksum field zero
    let mut want = [0u8; TOTAL];
    want[0] = if V4 { 8 } else { 128 };
    want[4] = (id >> 8) as u8;
    want[5] = id as u8;
    want[6] = (seq >> 8) as u8;
    want[7] = seq as u8;
    let mut i = 0;
    while i < N {
        want[8 + i] = raw[i];
        i += 1;
    }
    unsafe {
        assert!(CK_CALLS == 1, "C11.echo.cksum_once: the checksum is not computed exactly once");
        assert!(CK_LEN == TOTAL, "C11.echo.cksum_extent: the checksum does not cover the whole message");
        let mut i = 0;
        while i < TOTAL {
            assert!(CK_ARG[i] == want[i], "C11.echo.cksum_input: the checksum is computed over something other than the message with a zeroed checksum field");
            i += 1;
        }
    }
    assert!(out.len() == TOTAL, "C11.echo.len: serialised echo is not header + data");
    assert!(out[0] == want[0], "C11.echo.type: wrong ICMP type for an echo request");
    assert!(out[1] == 0, "C11.echo.code: echo request code must be 0");
    assert!(out[2] == (ck >> 8) as u8 && out[3] == ck as u8, "C11.echo.cksum_field: checksum not stored big-endian at offset 2");
    assert!(out[4] == want[4] && out[5] == want[5], "C11.echo.id: identifier not big-endian at offset 4");
    assert!(out[6] == want[6] && out[7] == want[7], "C11.echo.seq: sequence number not big-endian at offset 6");
    let mut i = 0;
    while i < N {
        assert!(out[8 + i] == want[8 + i], "C11.echo.data: data bytes altered");
        i += 1;
    }
    core::mem::forget(out);
    core::mem::forget(msg);
}

/*@gen
{"name": "c11_echo_serialize_{1}_{0}", "call": "echo_serialize::<{0}, {2}, {3}>()", "unwind": "{0} + 10",
 "stubs": ["bytes", "bytesmut", "#[kani::stub(crate::net_utils::rfc1071_checksum, cksum_recording_stub)]"], "core": true,
 "bound": "{1}: identifier, sequence number symbolic; data of exactly {0} bytes, symbolic contents; rfc1071_checksum replaced by a recording stub returning an arbitrary value (the function itself is decided separately for the same lengths)",
 "desc": "a serialised echo request has the RFC 792 / RFC 4443 layout (type 8 or 128, code 0, id, seq, data); its checksum field holds, big-endian, the value rfc1071_checksum returns for the message with a zeroed checksum field",
 "encodes": ["icmp_utils::Echo::serialize", "icmp_utils::Message::serialize"],
 "quick": "[(n, v, n + 8, 'true' if v == 'v4' else 'false') for n in (0, 1, 4, 7) for v in ('v4', 'v6')]",
 "thorough": "[(n, v, n + 8, 'true' if v == 'v4' else 'false') for n in range(0, 17) for v in ('v4', 'v6')]"}
@*/

/// reference: parse an ICMPv4 packet as (type, code, quoted echo request (id, seq, data offset))
fn ref_v4_quote(p: &[u8]) -> Option<(u16, u16, usize)> {
    // p = whole ICMP error message; quote starts at 8
    let q = &p[8..];
    if q.len() < 20 {
        return None;
    }
    let hl = ((q[0] & 0x0f) as usize) * 4;
    if hl < 20 || hl > q.len() {
        return None;
    }
    if q[9] != 1 {
        return None;
    }
    let icmp = &q[hl..];
    if icmp.len() < 8 || icmp[0] != 8 {
        return None;
    }
    Some((u16::from_be_bytes([icmp[4], icmp[5]]), u16::from_be_bytes([icmp[6], icmp[7]]), 8 + hl + 8))
}

fn v4_quote_harness<const N: usize>() -> bool {
    let (raw, pkt) = sym_static::<N>();
    let t = raw[0];
    kani::assume(t == 3 || t == 4 || t == 5 || t == 11 || t == 12);
    let r = v4::Message::deserialize(pkt);
    if let Ok(m) = r {
        let got = m.responded_echo_request();
        let want = ref_v4_quote(raw);
        match (&got, want) {
            (Some(e), Some((id, seq, off))) => {
                assert!(e.identifier == id, "C11.match4.id: identifier of the quoted request read from the wrong place");
                assert!(e.sequence_number == seq, "C11.match4.seq: sequence number of the quoted request read from the wrong place");
                assert!(e.data.len() == N - off, "C11.match4.data: data of the quoted request has the wrong extent");
            }
            (None, None) => {}
            (Some(_), None) => assert!(false, "C11.match4.spurious: a packet that does not quote an ICMP echo request is matched to one"),
            (None, Some(_)) => assert!(false, "C11.match4.missed: an ICMP error quoting an echo request is not matched"),
        }
        assert!(m.type_id().0 == t && m.code() == raw[1], "C11.match4.type_code: type/code not those of the packet");
        kani::cover!(got.is_some(), "C11.cover.match4_some");
        kani::cover!(got.is_none(), "C11.cover.match4_none");
        let with_options = got.is_some() && (raw[8] & 0x0f) == 6;
        core::mem::forget(got);
        core::mem::forget(m);
        with_options
    } else {
        // the only legitimate rejections of a long-enough error message are the code ranges
        assert!((t == 3 && raw[1] > 5) || (t == 11 && raw[1] > 1), "C11.match4.reject: a well-formed ICMP error is rejected");
        core::mem::forget(r);
        false
    }
}

// @harness tier=quick core=yes bound="ICMPv4 error messages of exactly 36 bytes (8 + 20-byte IP header + 8), all contents"
// @desc responded_echo_request returns the quoted echo request (id, seq at the right offsets, IHL-aware) iff the quote is an IPv4 header carrying an ICMP echo request
// @encodes icmp_utils::v4::Message::responded_echo_request
#[kani::proof]
#[kani::unwind(4)]
#[kani::stub(<bytes::Bytes as core::ops::Drop>::drop, drop_bytes_noop)]
#[kani::stub(alloc::fmt::format, fmt_format_stub)]
fn c11_v4_error_quote_36() {
    v4_quote_harness::<36>();
}

// @harness tier=quick core=no bound="ICMPv4 error messages of exactly 44 bytes (room for IHL 5..7 and data), all contents"
// @desc as above with room for IP options in the quoted header
// @encodes icmp_utils::v4::Message::responded_echo_request
#[kani::proof]
#[kani::unwind(4)]
#[kani::stub(<bytes::Bytes as core::ops::Drop>::drop, drop_bytes_noop)]
#[kani::stub(alloc::fmt::format, fmt_format_stub)]
fn c11_v4_error_quote_44() {
    let with_options = v4_quote_harness::<44>();
    kani::cover!(with_options, "C11.cover.match4_ip_options");
}

/// reference for ICMPv6: quote = IPv6 header (40 bytes) + extension headers + ICMPv6 echo request
fn ref_v6_quote(p: &[u8]) -> Option<Option<(u16, u16, usize)>> {
    // outer None = no obligation (extension header chain: generic 8-octet-unit lengths are not what the code implements; see DESIGN)
    let q = &p[8..];
    if q.len() < 40 {
        return Some(None);
    }
    let nh = q[6];
    if nh == 0 || nh == 43 || nh == 60 || nh == 44 {
        return None;
    }
    if nh != 58 {
        return Some(None);
    }
    let icmp = &q[40..];
    if icmp.len() < 8 || icmp[0] != 128 {
        return Some(None);
    }
    Some(Some((u16::from_be_bytes([icmp[4], icmp[5]]), u16::from_be_bytes([icmp[6], icmp[7]]), 8 + 40 + 8)))
}

// @harness tier=quick core=yes bound="ICMPv6 error messages of exactly 58 bytes (8 + 40-byte IPv6 header + 10), all contents, at most 5 extension headers walked"
// @desc v6 responded_echo_request returns the quoted echo request iff the quote is an IPv6 header whose next header is ICMPv6 echo request; no panic for any extension-header chain
// @encodes icmp_utils::v6::Message::responded_echo_request
#[kani::proof]
#[kani::unwind(7)]
#[kani::stub(<bytes::Bytes as core::ops::Drop>::drop, drop_bytes_noop)]
#[kani::stub(alloc::fmt::format, fmt_format_stub)]
fn c11_v6_error_quote_58() {
    const N: usize = 58;
    let (raw, pkt) = sym_static::<N>();
    let t = raw[0];
    kani::assume(t >= 1 && t <= 4);
    let r = v6::Message::deserialize(pkt);
    if let Ok(m) = r {
        let got = m.responded_echo_request();
        if let Some(want) = ref_v6_quote(raw) {
            match (&got, want) {
                (Some(e), Some((id, seq, off))) => {
                    assert!(e.identifier == id, "C11.match6.id: identifier of the quoted request read from the wrong place");
                    assert!(e.sequence_number == seq, "C11.match6.seq: sequence number of the quoted request read from the wrong place");
                    assert!(e.data.len() == N - off, "C11.match6.data: data of the quoted request has the wrong extent");
                }
                (None, None) => {}
                (Some(_), None) => assert!(false, "C11.match6.spurious: a packet that does not quote an ICMPv6 echo request is matched to one"),
                (None, Some(_)) => assert!(false, "C11.match6.missed: an ICMPv6 error quoting an echo request is not matched"),
            }
        }
        assert!(m.type_id().0 == t && m.code() == raw[1], "C11.match6.type_code: type/code not those of the packet");
        kani::cover!(got.is_some(), "C11.cover.match6_some");
        kani::cover!(got.is_none() && raw[14] == 58, "C11.cover.match6_none_icmp");
        kani::cover!(raw[14] == 0, "C11.cover.match6_ext_header");
        core::mem::forget(got);
        core::mem::forget(m);
    } else {
        assert!((t == 1 && raw[1] > 6) || (t == 3 && raw[1] > 1), "C11.match6.reject: a well-formed ICMPv6 error is rejected");
        core::mem::forget(r);
    }
}

// @harness tier=quick core=yes bound="echo replies of exactly 12 bytes, v4 (type 0) and v6 (type 129), all contents"
// @desc an echo reply is matched to the request with its own identifier and sequence number (offsets 4 and 6) and carries the data after the header
// @encodes icmp_utils::v4::Message::deserialize
#[kani::proof]
#[kani::unwind(4)]
#[kani::stub(<bytes::Bytes as core::ops::Drop>::drop, drop_bytes_noop)]
#[kani::stub(alloc::fmt::format, fmt_format_stub)]
fn c11_echo_reply_fields() {
    const N: usize = 12;
    let (raw, pkt) = sym_static::<N>();
    let is_v4: bool = kani::any();
    kani::assume(raw[0] == if is_v4 { 0 } else { 129 });
    let m: Message = if is_v4 {
        match v4::Message::deserialize(pkt) {
            Ok(m) => m.into(),
            Err(_) => {
                assert!(false, "C11.reply.reject: a well-formed echo reply is rejected");
                return;
            }
        }
    } else {
        match v6::Message::deserialize(pkt) {
            Ok(m) => m.into(),
            Err(_) => {
                assert!(false, "C11.reply.reject: a well-formed echo reply is rejected");
                return;
            }
        }
    };
    let e = m.responded_echo_request();
    match &e {
        Some(e) => {
            assert!(e.identifier == u16::from_be_bytes([raw[4], raw[5]]), "C11.reply.id: wrong identifier");
            assert!(e.sequence_number == u16::from_be_bytes([raw[6], raw[7]]), "C11.reply.seq: wrong sequence number");
            assert!(e.data.len() == 4 && e.data[0] == raw[8] && e.data[3] == raw[11], "C11.reply.data: wrong data");
        }
        None => assert!(false, "C11.reply.missed: an echo reply is not matched to any request"),
    }
    assert!(m.type_id() == raw[0] && m.code() == raw[1], "C11.reply.type_code: wrong type/code");
    core::mem::forget(e);
    core::mem::forget(m);
}

// @harness tier=quick core=no bound="two echoes with symbolic id/seq and data of length 1..=3 (empty data excluded: CBMC's memcmp model rejects the dangling pointer of an empty static slice)"
// @desc Echo equality implies equal (identifier, sequence number) - the only fields hashed - and is the data-prefix relation the waiter table relies on
// @encodes icmp_utils::Echo::eq
#[kani::proof]
#[kani::unwind(5)]
#[kani::stub(<bytes::Bytes as core::ops::Drop>::drop, drop_bytes_noop)]
fn c11_echo_eq_hash_consistent() {
    let na: usize = kani::any();
    let nb: usize = kani::any();
    kani::assume(na >= 1 && nb >= 1 && na <= 3 && nb <= 3);
    let (ra, da0) = sym_static::<3>();
    let (rb, db0) = sym_static::<3>();
    let da = da0.slice(..na);
    let db = db0.slice(..nb);
    let a = Echo { code: kani::any(), identifier: kani::any(), sequence_number: kani::any(), data: da };
    let b = Echo { code: kani::any(), identifier: kani::any(), sequence_number: kani::any(), data: db };
    let eq = a == b;
    let m = if na < nb { na } else { nb };
    let mut prefix = true;
    let mut i = 0;
    while i < m {
        prefix = prefix && ra[i] == rb[i];
        i += 1;
    }
    let want = a.identifier == b.identifier && a.sequence_number == b.sequence_number && prefix;
    assert!(eq == want, "C11.echo.eq: equality is not (id, seq equal and one data is a prefix of the other)");
    assert!((b == a) == eq, "C11.echo.eq_sym: equality is not symmetric");
    kani::cover!(eq && na != nb, "C11.cover.eq_prefix");
    kani::cover!(!eq && a.identifier == b.identifier && a.sequence_number == b.sequence_number, "C11.cover.neq_data");
    core::mem::forget(a);
    core::mem::forget(b);
}
