//! C11 — ICMP multiplexer wire codec (PROTOCOL.md 7.3 / 7.4).
//! @encodes http_icmp_codec::Decoder::on_message_chunk
//! @encodes http_icmp_codec::Decoder::decode_chunk
//! @encodes http_icmp_codec::Encoder::encode_packet
//! @cut K8
//! @assume echo data contents are arbitrary (ring::rand::SystemRandom::fill is replaced by a function filling the buffer with kani::any() bytes)
use super::*;
use crate::http_datagram_codec::{DecodeResult, Decoder as _, Encoder as _};
use crate::verif_env::{drop_bytes_noop, drop_bytesmut_noop, fmt_format_stub, leak, sym_static};


/// One transition of the request decoder from an arbitrary reachable pre-state:
/// `fill` bytes of the current record are buffered (0..=20), a chunk of `n` bytes arrives.
/// Reference (PROTOCOL.md 7.3, records are exactly 23 bytes, back to back):
///   seen = fill + n;  if seen < 23: WantMore, all chunk bytes buffered;
///   else: the record is buffered ++ chunk[..23-fill], tail = chunk[23-fill..].
fn step<const FILL: usize, const N: usize>() {
    let fill = FILL;
    let n = N;
    let pre: [u8; FILL] = kani::any();
    let mut d = Decoder::new();
    d.buffer.extend_from_slice(&pre);
    let (raw, chunk) = sym_static::<N>();
    let r = d.on_message_chunk(chunk);
    if fill + n < ICMPPKT_REQ_SIZE {
        assert!(r.is_none(), "C11.dec.early: a request is produced before its 23 bytes have arrived");
        assert!(d.buffer.len() == fill + n, "C11.dec.buffered: bytes of an incomplete request are lost or duplicated");
        let mut i = 0;
        while i < fill + n {
            let want = if i < fill { pre[i] } else { raw[i - fill] };
            assert!(d.buffer[i] == want, "C11.dec.buffer_content: buffered bytes altered");
            i += 1;
        }

    } else {
        match &r {
            None => assert!(false, "C11.dec.late: a complete request is not produced when its last byte arrives"),
            Some((rec, tail)) => {
                assert!(rec.len() == ICMPPKT_REQ_SIZE, "C11.dec.record_len: record is not 23 bytes");
                let take = ICMPPKT_REQ_SIZE - fill;
                let mut i = 0;
                while i < ICMPPKT_REQ_SIZE {
                    let want = if i < fill { pre[i] } else { raw[i - fill] };
                    assert!(rec[i] == want, "C11.dec.record_content: record bytes are not the stream bytes in order");
                    i += 1;
                }
                assert!(tail.len() == n - take, "C11.dec.tail_len: unconsumed tail has the wrong length");
                let mut j = 0;
                while j < n - take {
                    assert!(tail[j] == raw[take + j], "C11.dec.tail_content: unconsumed tail is not the suffix of the chunk");
                    j += 1;
                }
                assert!(d.buffer.is_empty(), "C11.dec.reset: decoder does not restart at a record boundary");

            }
        }
    }
    core::mem::forget(r);
    core::mem::forget(d);
}

/*@gen
{"name": "c11_decoder_step_fill{0}_chunk{1}", "call": "step::<{0}, {1}>()", "unwind": 28, "stubs": ["bytes", "bytesmut"], "core": true,
 "bound": "pre-state: exactly {0} buffered bytes; chunk of exactly {1} bytes; all contents symbolic",
 "desc": "one-step simulation of the 7.3 record splitter: the decoder buffers, completes and returns the tail exactly as the reference; by induction over chunks every segmentation yields the same records (shapes enumerated, contents decided by the solver)",
 "encodes": ["http_icmp_codec::Decoder::on_message_chunk"],
 "quick": "[(0,1),(0,22),(0,23),(0,24),(0,26),(1,1),(1,21),(1,22),(1,25),(11,11),(11,12),(11,14),(22,1),(22,3)]",
 "thorough": "[(f,n) for f in range(0,23,2) for n in range(1,28,3)] + [(f,23-f) for f in range(1,23)] + [(f,24-f) for f in range(1,23)]"}
@*/

/*@gen
{"name": "c11_decoder_fields_total{0}_size{1}", "call": "decoder_fields::<{0}, {1}>()", "unwind": 24, "stubs": ["bytes", "bytesmut"], "core": true,
 "bound": "one complete 23-byte record followed by {0}-23 trailing bytes, all contents symbolic except data size = {1}",
 "desc": "field extraction per PROTOCOL.md 7.3: id, 16-byte zero-padded destination, seq, ttl, data size; IPv4 destination -> ICMP echo, IPv6 -> ICMPv6 echo request; data has exactly the requested size",
 "encodes": ["http_icmp_codec::Decoder::decode_chunk", "net_utils::get_fixed_size_ip"],
 "quick": "[(23,0),(25,3),(23,32768),(23,65535)]", "thorough": "[(23,1),(24,8),(26,16)]"}
@*/
fn decoder_fields<const TOTAL: usize, const SIZE: u16>() {
    let extra = TOTAL - ICMPPKT_REQ_SIZE;
    let (raw, chunk) = sym_static::<TOTAL>();
    let size = u16::from_be_bytes([raw[21], raw[22]]);
    kani::assume(size == SIZE);
    let mut d = Decoder::new();
    match d.decode_chunk(chunk) {
        DecodeResult::WantMore => assert!(false, "C11.dec.fields_wantmore: a complete record was not decoded"),
        DecodeResult::Complete(dg, tail) => {
            let mut pad_zero = true;
            let mut i = 2;
            while i < 14 {
                pad_zero = pad_zero && raw[i] == 0;
                i += 1;
            }
            let echo = dg.message.to_echo();
            match echo {
                None => assert!(false, "C11.dec.not_echo: decoded message is not an echo request"),
                Some(e) => {
                    assert!(e.identifier == u16::from_be_bytes([raw[0], raw[1]]), "C11.dec.id: identifier");
                    assert!(e.sequence_number == u16::from_be_bytes([raw[18], raw[19]]), "C11.dec.seq: sequence number");
                    assert!(e.data.len() == size as usize, "C11.dec.size: echo data does not have the requested size");
                    assert!(e.code == 0, "C11.dec.code: echo code must be 0");
                }
            }
            assert!(dg.ttl == raw[20], "C11.dec.ttl: TTL / hop limit");
            match dg.meta.peer {
                std::net::IpAddr::V4(a) => {
                    assert!(pad_zero, "C11.dec.v4_pad: an address with non-zero padding decoded as IPv4");
                    let o = a.octets();
                    assert!(o[0] == raw[14] && o[1] == raw[15] && o[2] == raw[16] && o[3] == raw[17], "C11.dec.v4_addr: destination");
                    assert!(matches!(dg.message, icmp_utils::Message::V4(icmp_utils::v4::Message::Echo(_))), "C11.dec.v4_msg: IPv4 destination must produce an ICMPv4 echo");
                }
                std::net::IpAddr::V6(a) => {
                    assert!(!pad_zero, "C11.dec.v6_pad: a zero-padded address decoded as IPv6");
                    let o = a.octets();
                    let mut k = 0;
                    while k < 16 {
                        assert!(o[k] == raw[2 + k], "C11.dec.v6_addr: destination");
                        k += 1;
                    }
                    assert!(matches!(dg.message, icmp_utils::Message::V6(icmp_utils::v6::Message::EchoRequest(_))), "C11.dec.v6_msg: IPv6 destination must produce an ICMPv6 echo request");
                }
            }
            assert!(tail.len() == extra, "C11.dec.fields_tail: tail");
            kani::cover!(pad_zero, "C11.cover.fields_v4");
            kani::cover!(!pad_zero, "C11.cover.fields_v6");
            core::mem::forget(dg);
            core::mem::forget(tail);
        }
    }
    core::mem::forget(d);
}

fn encoder_layout<const KIND: usize, const PEER_V4: bool>() {
    // KIND 0: ICMPv4 destination-unreachable/time-exceeded style error quoting a 28-byte datagram (IPv4 header + echo request header);
    // 1: ICMPv4 echo reply; 2: ICMPv6 echo reply.  Messages are built directly (deserialisation is covered in icmp_utils).
    let id: u16 = kani::any();
    let seq: u16 = kani::any();
    let code: u8 = kani::any();
    let (msg, type_id): (icmp_utils::Message, u8) = if KIND == 0 {
        let (raw, quote) = sym_static::<28>();
        kani::assume(raw[0] & 0x0f == 5 && raw[9] == 1 && raw[20] == 8);
        kani::assume(raw[24] == (id >> 8) as u8 && raw[25] == id as u8 && raw[26] == (seq >> 8) as u8 && raw[27] == seq as u8);
        (icmp_utils::Message::V4(icmp_utils::v4::Message::SourceQuench(icmp_utils::v4::SourceQuench { code, data: quote })), 4)
    } else {
        let (_, data) = sym_static::<2>();
        let echo = icmp_utils::Echo { code, identifier: id, sequence_number: seq, data };
        if KIND == 1 {
            (icmp_utils::Message::V4(icmp_utils::v4::Message::EchoReply(echo)), 0)
        } else {
            (icmp_utils::Message::V6(icmp_utils::v6::Message::EchoReply(echo)), 129)
        }
    };
    let peer_v4 = PEER_V4;
    let a4: [u8; 4] = kani::any();
    let a6: [u8; 16] = kani::any();
    let peer = if peer_v4 { std::net::IpAddr::from(a4) } else { std::net::IpAddr::from(a6) };
    let dg = forwarder::IcmpDatagram { meta: forwarder::IcmpDatagramMeta { peer }, message: msg };
    let out = Encoder::default().encode_packet(&dg);
    match &out {
        None => assert!(false, "C11.enc.missed: a reply / error matching an echo request is not reported"),
        Some(b) => {
            assert!(b.len() == 22, "C11.enc.len: 7.4 record is 22 bytes");
            assert!(b[0] == (id >> 8) as u8 && b[1] == id as u8, "C11.enc.id: identifier of the request");
            let mut i = 0;
            while i < 16 {
                let want = if peer_v4 { if i < 12 { 0 } else { a4[i - 12] } } else { a6[i] };
                assert!(b[2 + i] == want, "C11.enc.addr: responder address (IPv4 zero-padded to 16 bytes)");
                i += 1;
            }
            assert!(b[18] == type_id, "C11.enc.type: ICMP type of the received message");
            assert!(b[19] == code, "C11.enc.code: ICMP code of the received message");
            assert!(b[20] == (seq >> 8) as u8 && b[21] == seq as u8, "C11.enc.seq: sequence number of the request");
        }
    }
    kani::cover!(out.is_some(), "C11.cover.enc_some");
    core::mem::forget(out);
    core::mem::forget(dg);
}

/*@gen
{"name": "c11_encoder_reply_layout_kind{0}_peer{1}", "call": "encoder_layout::<{0}, {2}>()", "unwind": 18, "stubs": ["bytes", "bytesmut", "fmt"], "core": true,
 "bound": "kind {0} (0 = ICMPv4 error (source quench) quoting a 28-byte datagram that carries an echo request, 1 = ICMPv4 echo reply, 2 = ICMPv6 echo reply), id/seq/code/quote symbolic; responder address symbolic {1}",
 "desc": "reply encoding per PROTOCOL.md 7.4: 22 bytes = id, 16-byte zero-padded responder address, ICMP type, code, seq of the matched request",
 "encodes": ["http_icmp_codec::Encoder::encode_packet", "net_utils::put_fixed_size_ip"],
 "quick": "[(k, p, 'true' if p == 'v4' else 'false') for k in (0, 1) for p in ('v4', 'v6')]",
 "thorough": "[(2, p, 'true' if p == 'v4' else 'false') for p in ('v4', 'v6')]"}
@*/

// @harness tier=quick core=no bound="ICMPv4 echo *requests* and timestamp messages of 12/20 bytes, all contents"
// @desc messages that answer no request (an echo request seen on the raw socket, timestamps) are not reported to any client
// @encodes http_icmp_codec::Encoder::encode_packet
#[kani::proof]
#[kani::unwind(4)]
#[kani::stub(<bytes::Bytes as core::ops::Drop>::drop, drop_bytes_noop)]
#[kani::stub(<bytes::BytesMut as core::ops::Drop>::drop, drop_bytesmut_noop)]
#[kani::stub(alloc::fmt::format, fmt_format_stub)]
fn c11_encoder_unrelated_not_reported() {
    let (raw, pkt) = sym_static::<20>();
    kani::assume(raw[0] == 8 || raw[0] == 13 || raw[0] == 14);
    if let Ok(m) = icmp_utils::v4::Message::deserialize(pkt) {
        let dg = forwarder::IcmpDatagram { meta: forwarder::IcmpDatagramMeta { peer: std::net::IpAddr::from([1u8, 2, 3, 4]) }, message: m.into() };
        let out = Encoder::default().encode_packet(&dg);
        assert!(out.is_none(), "C11.enc.unrelated: a message that answers no echo request is reported");
        kani::cover!(raw[0] == 8, "C11.cover.enc_unrelated_echo_request");
        core::mem::forget(out);
        core::mem::forget(dg);
    }
}
