"""Instance generator for kani/C04/rules.rs: rule lists drawn from pools of concrete field spellings."""
import itertools, random

CIDR = {  # spelling -> reference
    None: "RefCidr::Any",
    "10.0.0.0/8": "RefCidr::V4(0x0a000000, 8)",
    "10.1.0.0/16": "RefCidr::V4(0x0a010000, 16)",
    "10.1.2.3/32": "RefCidr::V4(0x0a010203, 32)",
    "0.0.0.0/0": "RefCidr::V4(0, 0)",
    "192.168.1.0/24": "RefCidr::V4(0xc0a80100, 24)",
    "2001:db8::/32": "RefCidr::V6(0x20010db8_0000_0000_0000_0000_0000_0000, 32)",
    "::/0": "RefCidr::V6(0, 0)",
    "fe80::/10": "RefCidr::V6(0xfe80_0000_0000_0000_0000_0000_0000_0000, 10)",
    "10.0.0.0/33": "RefCidr::Invalid",
    "zz": "RefCidr::Invalid",
    "": "RefCidr::Invalid",
}
PAT = {
    None: "RefPat::Any",
    "aabb": "RefPat::Prefix(&[0xaa, 0xbb])",
    "AABB": "RefPat::Prefix(&[0xaa, 0xbb])",
    "aabbcc": "RefPat::Prefix(&[0xaa, 0xbb, 0xcc])",
    "": "RefPat::Prefix(&[])",
    "a0b0/f0f0": "RefPat::Masked(&[0xa0, 0xb0], &[0xf0, 0xf0])",
    "bad0/ff00": "RefPat::Masked(&[0xba, 0xd0], &[0xff, 0x00])",
    "ff/01": "RefPat::Masked(&[0xff], &[0x01])",
    "aa00cc/ff00ff": "RefPat::Masked(&[0xaa, 0x00, 0xcc], &[0xff, 0x00, 0xff])",
    "0011/00ff": "RefPat::Masked(&[0x00, 0x11], &[0x00, 0xff])",
    "aabbcc/ff": "RefPat::Unspecified",
    "aa/ffff": "RefPat::Unspecified",
    "aabb/": "RefPat::Unspecified",
    "/ff": "RefPat::Unspecified",
    "abc": "RefPat::Invalid",
    "zz": "RefPat::Invalid",
    "aabb/zz": "RefPat::Invalid",
}


def rs(s):
    return "None" if s is None else 'Some("%s")' % s


def render(idx, rules, v6, rlen):
    specs = ", ".join("(%s, %s, %s)" % (rs(c), rs(p), "true" if d else "false") for c, p, d in rules)
    refs = ", ".join("RefRule {{ cidr: %s, pat: %s, deny: %s }}" % (CIDR[c], PAT[p], "true" if d else "false") for c, p, d in rules)
    human = "; ".join("cidr=%s pattern=%s %s" % (c, p, "deny" if d else "allow") for c, p, d in rules).replace('"', "'")
    name = "%03d_%s_r%s" % (idx, "v6" if v6 else "v4", "none" if rlen == 99 else rlen)
    # refs contain braces: escape for str.format done by caller -> we return final strings, so double braces are un-doubled here
    refs = refs.replace("{{", "{").replace("}}", "}")
    return (name, "true" if v6 else "false", rlen, specs, refs, human, "IPv6" if v6 else "IPv4",
            "absent" if rlen == 99 else "every byte string of length %d" % rlen)


QUICK_LISTS = [
    [],
    [("10.0.0.0/8", None, True)],
    [("10.1.0.0/16", None, False), ("10.0.0.0/8", None, True)],           # overlapping, order matters
    [("10.0.0.0/8", None, True), ("10.1.0.0/16", None, False)],
    [(None, "aabb", True)],
    [(None, "a0b0/f0f0", True), (None, None, False)],
    [("10.0.0.0/8", "aabb", True), ("10.0.0.0/8", None, False), (None, None, True)],
    [("zz", None, True), ("192.168.1.0/24", None, True)],                     # malformed field inside a valid list
    [(None, "abc", True), ("0.0.0.0/0", None, False)],                        # malformed pattern: never matches, still needs a random
    [("2001:db8::/32", None, True), ("::/0", None, False)],
    [("10.1.2.3/32", "bad0/ff00", True)],
    [(None, "", True)],
    [(None, "aa00cc/ff00ff", False), (None, None, True)],                      # interior zero mask byte
    [(None, "0011/00ff", True)],
    [("10.0.0.0/8", None, False), (None, "aabbcc", True)],                    # an earlier allow must not pre-empt fail-closed
    [("0.0.0.0/0", None, False), ("10.0.0.0/8", "aabb", True), (None, None, True)],
    [("10.0.0.0/33", None, True), (None, "AABB", True)],
]


def instances(tier):
    out = []
    idx = 0
    if tier == "quick":
        for rules in QUICK_LISTS:
            fams = {False}
            if any(c and ":" in c for c, _, _ in rules):
                fams = {False, True}
            needs = any(p is not None for _, p, _ in rules)
            rlens = [99, 32] if needs else [99]
            if any(p in ("aabb", "aabbcc") for _, p, _ in rules):
                rlens.append(1)
            for v6 in sorted(fams):
                for rlen in rlens:
                    out.append(render(idx, rules, v6, rlen))
                    idx += 1
        return out
    # thorough: all single rules over the pools, plus random lists of length 2..3 (fixed seed)
    idx = 500
    for c in [x for x in CIDR if x not in ("10.1.2.3/32", "fe80::/10", "", "192.168.1.0/24")]:
        for p in PAT:
            for v6 in ((False, True) if (c and ":" in c) else (False,)):
                for rlen in ((99, 32) if p is not None else (99,)):
                    out.append(render(idx, [(c, p, True)], v6, rlen))
                    idx += 1
    rnd = random.Random(4)
    cs, ps = list(CIDR), list(PAT)
    for _ in range(60):
        n = rnd.choice((2, 3))
        rules = [(rnd.choice(cs), rnd.choice(ps), rnd.random() < 0.5) for _ in range(n)]
        out.append(render(idx, rules, rnd.random() < 0.3, rnd.choice((99, 2, 32))))
        idx += 1
    return out
