// Native demonstration for the C13 credential-extraction defect (fails before fix, passes after); was appended to lib/src/settings.rs

#[cfg(test)]
mod demo_c13 {
    use serde::de::IntoDeserializer;

    #[test]
    fn credentials_mean_what_toml_says() {
        let dir = std::env::temp_dir().join(format!("tt-c13-{}", std::process::id()));
        std::fs::create_dir_all(&dir).unwrap();
        let creds = dir.join("credentials.toml");
        std::fs::write(&creds, "[[client]]\nusername = \"al\\\"ice\"\npassword = ' p\\w '\n").unwrap();
        let d: serde::de::value::StrDeserializer<serde::de::value::Error> = creds.to_str().unwrap().into_deserializer();
        let clients = super::deserialize_clients(d).unwrap();
        assert_eq!(clients[0].username, "al\"ice");
        assert_eq!(clients[0].password, " p\\w ");
    }
}
