// Native demonstration for the C15 over-long credentials defect (fails before the fix, passes after); was appended to lib/src/socks5_client.rs

#[cfg(test)]
mod demo_c15 {
    use super::*;

    #[tokio::test]
    async fn overlong_credentials_are_refused_not_truncated() {
        for (u, p) in [(256usize, 1usize), (1, 256), (300, 300)] {
            let mut wire: Vec<u8> = Vec::new();
            let auth = Authentication::UsernamePassword(Cow::Owned("u".repeat(u)), Cow::Owned("p".repeat(p)));
            let r = wire.write_authentication_message(&auth).await;
            assert!(r.is_err(), "credentials that do not fit RFC 1929 must fail the request");
            assert!(wire.is_empty(), "a malformed RFC 1929 message was sent: {:?}...", &wire[..4.min(wire.len())]);
        }
        let mut wire: Vec<u8> = Vec::new();
        let auth = Authentication::UsernamePassword(Cow::Owned("u".repeat(255)), Cow::Owned("p".repeat(255)));
        wire.write_authentication_message(&auth).await.unwrap();
        assert_eq!((wire[0], wire[1], wire[257], wire.len()), (1, 255, 255, 513));
    }
}
