// Native demonstration for the C16 export defect (fails before the fix, passes after); was appended to lib/src/metrics.rs

#[cfg(test)]
mod demo_c16 {
    #[test]
    fn exported_page_contains_the_documented_series() {
        let metrics = super::Metrics::new().unwrap();
        metrics.outbound_udp_sockets.inc();
        metrics.add_inbound_bytes(crate::tls_demultiplexer::Protocol::Http2, 42);
        let (_, body) = metrics.collect();
        let text = String::from_utf8(body.to_vec()).unwrap();
        assert!(text.contains("outbound_udp_sockets 1"), "page: {}", text);
        assert!(text.contains("inbound_traffic_bytes{protocol_type=\"HTTP2\"} 42") || text.contains("inbound_traffic_bytes{protocol_type=\"http2\"} 42"), "page: {}", text);
    }
}
