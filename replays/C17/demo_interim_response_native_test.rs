// Native demonstration for the C17 interim-response defect (fails before the fix, passes after); was appended to lib/src/http_forwarded_stream.rs

#[cfg(test)]
mod demo_c17_1xx {
    use super::*;
    use crate::pipe::Sink as _;
    use std::net::IpAddr;
    use std::sync::atomic::{AtomicUsize, Ordering};
    use std::sync::Arc;

    struct Req(RequestHeaders);
    struct Resp(Arc<AtomicUsize>, Arc<AtomicUsize>);
    struct Strm(Req, Resp);
    struct Done;
    struct NullSink;

    impl http_codec::Stream for Strm {
        fn id(&self) -> log_utils::IdChain<u64> { log_utils::IdChain::empty() }
        fn request(&self) -> &dyn http_codec::PendingRequest { &self.0 }
        fn split(self: Box<Self>) -> (Box<dyn http_codec::PendingRequest>, Box<dyn http_codec::PendingRespond>) {
            (Box::new(self.0), Box::new(self.1))
        }
    }
    impl http_codec::PendingRequest for Req {
        fn id(&self) -> log_utils::IdChain<u64> { log_utils::IdChain::empty() }
        fn request(&self) -> &RequestHeaders { &self.0 }
        fn client_address(&self) -> io::Result<IpAddr> { Ok(IpAddr::from([127, 0, 0, 1])) }
        fn finalize(self: Box<Self>) -> Box<dyn pipe::Source> { unimplemented!() }
    }
    impl http_codec::PendingRespond for Resp {
        fn id(&self) -> log_utils::IdChain<u64> { log_utils::IdChain::empty() }
        fn send_intermediate_response(&self, _: ResponseHeaders) -> io::Result<()> { self.0.fetch_add(1, Ordering::SeqCst); Ok(()) }
        fn send_response(self: Box<Self>, _: ResponseHeaders, _: bool) -> io::Result<Box<dyn http_codec::RespondedStreamSink>> {
            self.1.fetch_add(1, Ordering::SeqCst);
            Ok(Box::new(Done))
        }
    }
    impl http_codec::RespondedStreamSink for Done {
        fn into_pipe_sink(self: Box<Self>) -> Box<dyn pipe::Sink> { Box::new(NullSink) }
        fn into_datagram_sink(self: Box<Self>) -> Box<dyn http_codec::DroppingSink> { unimplemented!() }
    }
    #[async_trait]
    impl pipe::Sink for NullSink {
        fn id(&self) -> log_utils::IdChain<u64> { log_utils::IdChain::empty() }
        fn write(&mut self, _: Bytes) -> io::Result<Bytes> { Ok(Bytes::new()) }
        fn eof(&mut self) -> io::Result<()> { Ok(()) }
        async fn wait_writable(&mut self) -> io::Result<()> { Ok(()) }
    }

    #[tokio::test]
    async fn interim_response_followed_by_final_one_in_the_same_read() {
        let (interim, fin) = (Arc::new(AtomicUsize::new(0)), Arc::new(AtomicUsize::new(0)));
        let req = http::Request::builder().method("GET").uri("http://example.org/").body(()).unwrap().into_parts().0;
        let (_src, mut sink) = into_forwarded(Box::new(Strm(Req(req), Resp(interim.clone(), fin.clone())))).unwrap();
        // what SimplexPipe does: write, and while something is unsent: wait_writable, write the rest
        let mut data = Bytes::from_static(b"HTTP/1.1 100 Continue\r\n\r\nHTTP/1.1 204 No Content\r\n\r\n");
        let mut rounds = 0;
        loop {
            data = sink.write(data).unwrap();
            if data.is_empty() { break; }
            sink.wait_writable().await.expect("wait_writable failed after an interim response");
            rounds += 1;
            assert!(rounds < 5);
        }
        assert_eq!((interim.load(Ordering::SeqCst), fin.load(Ordering::SeqCst)), (1, 1));
    }
}
