//! Demonstration for property C18: a reverse-proxy request is sent to the configured origin whatever the
//! private-network policy for *client* destinations (the default policy refuses loopback / private addresses).
use crate::http_codec::{PendingRequest, PendingRespond, RequestHeaders, RespondedStreamSink, ResponseHeaders, Stream};
use crate::tls_demultiplexer::Protocol;
use crate::{core, http_codec, log_utils, pipe, settings};
use async_trait::async_trait;
use std::io;
use std::net::IpAddr;
use std::sync::Arc;
use std::time::Duration;
use tokio::io::AsyncReadExt;

struct Req(RequestHeaders);
struct Resp;
struct Strm(Req);
struct Eof;

impl Stream for Strm {
    fn id(&self) -> log_utils::IdChain<u64> { log_utils::IdChain::empty() }
    fn request(&self) -> &dyn PendingRequest { &self.0 }
    fn split(self: Box<Self>) -> (Box<dyn PendingRequest>, Box<dyn PendingRespond>) { (Box::new(self.0), Box::new(Resp)) }
}
impl PendingRequest for Req {
    fn id(&self) -> log_utils::IdChain<u64> { log_utils::IdChain::empty() }
    fn request(&self) -> &RequestHeaders { &self.0 }
    fn client_address(&self) -> io::Result<IpAddr> { Ok(IpAddr::from([203, 0, 113, 1])) }
    fn finalize(self: Box<Self>) -> Box<dyn pipe::Source> { Box::new(Eof) }
}
impl PendingRespond for Resp {
    fn id(&self) -> log_utils::IdChain<u64> { log_utils::IdChain::empty() }
    fn send_response(self: Box<Self>, _: ResponseHeaders, _: bool) -> io::Result<Box<dyn RespondedStreamSink>> {
        Err(io::Error::new(io::ErrorKind::Other, "the demo stops once the origin has been reached"))
    }
}
#[async_trait]
impl pipe::Source for Eof {
    fn id(&self) -> log_utils::IdChain<u64> { log_utils::IdChain::empty() }
    async fn read(&mut self) -> io::Result<pipe::Data> { Ok(pipe::Data::Eof) }
    fn consume(&mut self, _: usize) -> io::Result<()> { Ok(()) }
}

#[tokio::test]
async fn c18_loopback_origin_is_reached_under_the_default_egress_policy() {
    let origin = tokio::net::TcpListener::bind("127.0.0.1:0").await.unwrap();
    let origin_addr = origin.local_addr().unwrap();
    let mut context = core::Context::default();
    {
        let s = Arc::get_mut(&mut context.settings).unwrap();
        // the value a deployed endpoint gets when the setting is not given (Settings::default_allow_private_network_connections)
        s.allow_private_network_connections = settings::Settings::default_allow_private_network_connections();
        assert!(!s.allow_private_network_connections);
        s.reverse_proxy = Some(settings::ReverseProxySettings::builder().server_address(origin_addr).unwrap().path_mask("/".to_string()).build().unwrap());
    }
    let context = Arc::new(context);
    let req = http::Request::builder().method("GET").uri("/index.html").header("upgrade", "websocket").body(()).unwrap().into_parts().0;
    let handler = tokio::spawn(async move {
        let _ = super::handle_stream(context, Box::new(Strm(Req(req))), Protocol::Http1, "rp.example".to_string(), &log_utils::IdChain::empty()).await;
    });
    let accepted = tokio::time::timeout(Duration::from_secs(2), async {
        let (mut s, _) = origin.accept().await.unwrap();
        let mut buf = vec![0u8; 256];
        let n = s.read(&mut buf).await.unwrap();
        String::from_utf8_lossy(&buf[..n]).to_string()
    })
    .await;
    handler.abort();
    let head = accepted.expect("the configured origin was never contacted (refused by the client-destination egress policy)");
    assert!(head.starts_with("GET /index.html HTTP/1.1\r\n"), "origin got: {:?}", head);
    assert!(head.to_ascii_lowercase().contains("x-original-protocol: http1"), "origin got: {:?}", head);
}
