// kani produced no concrete playback test
variables)]` (part of `#[warn(unused)]`) on by default

warning: fields `fmt` and `id` are never read
   --> lib/src/log_utils.rs:121:5
    |
120 | pub struct IdItem<T: Copy + serde::ser::Serialize> {
    |            ------ fields in this struct
121 |     fmt: &'static str,
    |     ^^^
122 |     id: T,
    |     ^^
    |
    = note: `IdItem` has a derived impl for the trait `Clone`, but this is intentionally ignored during dead code analysis
    = note: `#[warn(dead_code)]` (part of `#[warn(unused)]`) on by default

warning: use of an unstable feature
 --> lib/src/lib.rs:1:27
  |
1 | #![cfg_attr(kani, feature(allocator_api))]
  |                           ^^^^^^^^^^^^^
  |
  = note: requested on the command line with `--force-warn unstable-features`

warning: use of an unstable feature
 --> <crate attribute>:1:12
  |
1 | #![feature(register_tool)]
  |            ^^^^^^^^^^^^^

warning: hiding a lifetime that's elided elsewhere is confusing
  --> lib/src/http_codec.rs:52:18
   |
52 |     fn auth_info(&self) -> io::Result<Option<authentication::Source>> {
   |                  ^^^^^                       ^^^^^^^^^^^^^^^^^^^^^^ the same lifetime is hidden here
   |                  |
   |                  the lifetime is elided here
   |
   = help: the same lifetime is referred to in inconsistent ways, making the signature confusing
   = note: `#[warn(mismatched_lifetime_syntaxes)]` on by default
help: use `'_` for type paths
   |
52 |     fn auth_info(&self) -> io::Result<Option<authentication::Source<'_>>> {
   |                                                                    ++++

warning: hiding a lifetime that's elided elsewhere is confusing
   --> lib/src/http_downstream.rs:285:18
    |
285 |     fn auth_info(&self) -> io::Result<Option<authentication::Source>> {
    |                  ^^^^^                       ^^^^^^^^^^^^^^^^^^^^^^ the same lifetime is hidden here
    |                  |
    |                  the lifetime is elided here
    |
    = help: the same lifetime is referred to in inconsistent ways, making the signature confusing
help: use `'_` for type paths
    |
285 |     fn auth_info(&self) -> io::Result<Option<authentication::Source<'_>>> {
    |                                                                    ++++

warning: Found the following unsupported constructs:
             - caller_location (1)
             - foreign function (15)
         
         Verification will fail if one or more of these constructs is reachable.
         See https://model-checking.github.io/kani/rust-feature-support.html for more details.

warning: Kani currently does not support concurrency. The following constructs will be treated as sequential operations:
             - atomic_xchg (5)
             - atomic_cxchgweak (15)
             - atomic_xsub (5)
             - atomic_xadd (5)
             - atomic_load (15)
             - atomic_store (9)
             - atomic_cxchg (30)
             - thread local (replaced by static variable) (1)
         

    Finished `dev` profile [unoptimized + debuginfo] target(s) in 10.88s
Checking harness http_downstream::verif_c10::c10_dispatch_udp2_connect...
  - Stub: < std :: alloc :: Global as std :: alloc :: Allocator > :: deallocate -> crate :: verif_env :: global_dealloc_noop
  - Stub: std :: str :: from_utf8 -> crate :: verif_env :: from_utf8_accept
  - Stub: alloc :: fmt :: format -> crate :: verif_env :: fmt_format_stub

CBMC failed
VERIFICATION:- FAILED
CBMC timed out. You may want to rerun your proof with a larger timeout or use stubbing to reduce the size of the code the verifier reasons about.

The concrete playback feature did not generate unit tests, but there were failing harnesses. Please file a bug report at https://github.com/model-checking/kani/issues/new?labels=bug&template=bug_report.md
Manual Harness Summary:
Verification failed for - http_downstream::verif_c10::c10_dispatch_udp2_connect
Complete - 0 successfully verified harnesses, 1 failures, 1 total.
