mod demo_c08 {
    use super::*;
    use crate::http_codec::HttpCodec;
    use std::sync::Arc;
    use tokio::io::AsyncWriteExt;

    struct Io(tokio::io::DuplexStream);
    impl net_utils::PeerAddr for Io {
        fn peer_addr(&self) -> io::Result<std::net::SocketAddr> {
            Ok(std::net::SocketAddr::from(([127, 0, 0, 1], 1)))
        }
    }
    impl AsyncRead for Io {
        fn poll_read(mut self: std::pin::Pin<&mut Self>, cx: &mut std::task::Context<'_>, buf: &mut tokio::io::ReadBuf<'_>) -> std::task::Poll<io::Result<()>> {
            std::pin::Pin::new(&mut self.0).poll_read(cx, buf)
        }
    }
    impl AsyncWrite for Io {
        fn poll_write(mut self: std::pin::Pin<&mut Self>, cx: &mut std::task::Context<'_>, b: &[u8]) -> std::task::Poll<io::Result<usize>> {
            std::pin::Pin::new(&mut self.0).poll_write(cx, b)
        }
        fn poll_flush(mut self: std::pin::Pin<&mut Self>, cx: &mut std::task::Context<'_>) -> std::task::Poll<io::Result<()>> {
            std::pin::Pin::new(&mut self.0).poll_flush(cx)
        }
        fn poll_shutdown(mut self: std::pin::Pin<&mut Self>, cx: &mut std::task::Context<'_>) -> std::task::Poll<io::Result<()>> {
            std::pin::Pin::new(&mut self.0).poll_shutdown(cx)
        }
    }

    #[tokio::test(flavor = "current_thread")]
    async fn head_split_across_two_reads_completes() {
        let (mut client, server) = tokio::io::duplex(4096);
        let settings = Arc::new(
            crate::settings::Settings::builder()
                .listen_address("127.0.0.1:1").unwrap()
                .listen_protocols(crate::settings::ListenProtocolSettings {
                    http1: Some(crate::settings::Http1Settings::builder().build()),
                    ..Default::default()
                })
                .build().unwrap(),
        );
        let mut codec = Http1Codec::new(settings, Io(server), log_utils::IdChain::empty());
        let writer = async {
            client.write_all(b"CONNECT example.org:443 HT").await.unwrap();
            tokio::time::sleep(std::time::Duration::from_millis(50)).await;
            client.write_all(b"TP/1.1\r\n\r\n").await.unwrap();
            client
        };
        let listener = async { codec.listen().await };
        let r = tokio::time::timeout(std::time::Duration::from_secs(3), async { tokio::join!(writer, listener) }).await;
        let (_c, stream) = r.expect("listen() neither completed nor yielded: busy loop on an incomplete head");
        assert!(stream.unwrap().is_some());
    }
}
