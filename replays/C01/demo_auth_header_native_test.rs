//! Demonstration for property C01 / C20 (adapted from the Tunnel-level scaffolding of seeded/C10-c)
//! Original header: demonstration for property C10: a CONNECT whose outbound connection attempt
//! runs into the endpoint's own connection establishment timeout must be answered
//! with exactly one `502` carrying `X-Warning: 302 - ...` (timed out).
//!
//! The test drives the real `Tunnel` + `HttpDownstream` pair with a mock HTTP
//! stream and a mock forwarder.

use crate::forwarder::{
    DatagramMultiplexerAuthenticator, Forwarder, IcmpMultiplexer, TcpConnectionMeta, TcpConnector,
    UdpMultiplexer, UdpMultiplexerMeta,
};
use crate::http_codec::{
    DroppingSink, PendingRequest, PendingRespond, RequestHeaders, RespondedStreamSink,
    ResponseHeaders, Stream,
};
use crate::http_downstream::HttpDownstream;
use crate::tls_demultiplexer::Protocol;
use crate::tunnel::{AuthenticationPolicy, ConnectionError, Tunnel};
use crate::{core, http_codec, log_utils, pipe};
use async_trait::async_trait;
use std::io;
use std::net::{IpAddr, Ipv4Addr};
use std::sync::Arc;
use std::time::Duration;
use tokio::sync::mpsc;

type Responses = mpsc::UnboundedSender<ResponseHeaders>;

struct MockStream {
    request: MockRequest,
    responses: Responses,
}

struct MockRequest {
    headers: RequestHeaders,
}

struct MockRespond {
    responses: Responses,
}

struct MockResponded;

struct EofSource;

impl Stream for MockStream {
    fn id(&self) -> log_utils::IdChain<u64> {
        log_utils::IdChain::empty()
    }

    fn request(&self) -> &dyn PendingRequest {
        &self.request
    }

    fn split(self: Box<Self>) -> (Box<dyn PendingRequest>, Box<dyn PendingRespond>) {
        (
            Box::new(self.request),
            Box::new(MockRespond {
                responses: self.responses,
            }),
        )
    }
}

impl PendingRequest for MockRequest {
    fn id(&self) -> log_utils::IdChain<u64> {
        log_utils::IdChain::empty()
    }

    fn request(&self) -> &RequestHeaders {
        &self.headers
    }

    fn client_address(&self) -> io::Result<IpAddr> {
        Ok(IpAddr::V4(Ipv4Addr::new(203, 0, 113, 1)))
    }

    fn finalize(self: Box<Self>) -> Box<dyn pipe::Source> {
        Box::new(EofSource)
    }
}

#[async_trait]
impl pipe::Source for EofSource {
    fn id(&self) -> log_utils::IdChain<u64> {
        log_utils::IdChain::empty()
    }

    async fn read(&mut self) -> io::Result<pipe::Data> {
        Ok(pipe::Data::Eof)
    }

    fn consume(&mut self, _size: usize) -> io::Result<()> {
        Ok(())
    }
}

impl PendingRespond for MockRespond {
    fn id(&self) -> log_utils::IdChain<u64> {
        log_utils::IdChain::empty()
    }

    fn send_response(
        self: Box<Self>,
        response: ResponseHeaders,
        _eof: bool,
    ) -> io::Result<Box<dyn RespondedStreamSink>> {
        let _ = self.responses.send(response);
        Ok(Box::new(MockResponded))
    }
}

impl RespondedStreamSink for MockResponded {
    fn into_pipe_sink(self: Box<Self>) -> Box<dyn pipe::Sink> {
        unreachable!("the demo never gets a successful connection")
    }

    fn into_datagram_sink(self: Box<Self>) -> Box<dyn DroppingSink> {
        unreachable!("the demo never opens a datagram multiplexer")
    }
}

/// How the mock outbound connection attempt ends
#[derive(Clone, Copy)]
enum Outcome {
    /// The peer never answers: `connect()` stays pending until the tunnel gives up
    Hangs,
    /// The connector itself reports the time-out (e.g. the OS returned ETIMEDOUT)
    ReportsTimeout,
}

struct MockForwarder(Outcome);
struct MockConnector(Outcome);

impl Forwarder for MockForwarder {
    fn tcp_connector(&self) -> Box<dyn TcpConnector> {
        Box::new(MockConnector(self.0))
    }

    fn datagram_mux_authenticator(&self) -> Box<dyn DatagramMultiplexerAuthenticator> {
        unreachable!()
    }

    fn make_udp_datagram_multiplexer(
        &self,
        _id: log_utils::IdChain<u64>,
        _meta: UdpMultiplexerMeta,
    ) -> io::Result<UdpMultiplexer> {
        unreachable!()
    }

    fn make_icmp_datagram_multiplexer(
        &self,
        _id: log_utils::IdChain<u64>,
    ) -> io::Result<Option<IcmpMultiplexer>> {
        unreachable!()
    }
}

#[async_trait]
impl TcpConnector for MockConnector {
    async fn connect(
        self: Box<Self>,
        _id: log_utils::IdChain<u64>,
        _meta: TcpConnectionMeta,
    ) -> Result<(Box<dyn pipe::Source>, Box<dyn pipe::Sink>), ConnectionError> {
        match self.0 {
            Outcome::Hangs => futures::future::pending().await,
            Outcome::ReportsTimeout => Err(ConnectionError::Timeout),
        }
    }
}


/// Send `CONNECT example.org:443` with the given Proxy-Authorization value through a real `Tunnel` over a real
/// `HttpDownstream` with a configured authenticator, and collect every final response produced for it.
async fn run_connect_with_auth(header: Option<&'static str>) -> Vec<ResponseHeaders> {
    let mut context = core::Context::default();
    context.authenticator = Some(Arc::new(crate::authentication::registry_based::RegistryBasedAuthenticator::new(&[
        crate::authentication::registry_based::Client { username: "alice".into(), password: "secret".into() },
    ])));
    let context = Arc::new(context);
    let (tx, mut rx) = mpsc::unbounded_channel();
    let mut b = http::Request::builder().method(http::Method::CONNECT).uri("example.org:443").version(http::Version::HTTP_2);
    if let Some(h) = header {
        b = b.header("proxy-authorization", h);
    }
    let stream = MockStream { request: MockRequest { headers: b.body(()).unwrap().into_parts().0 }, responses: tx };
    let downstream = HttpDownstream::new(
        context.clone(),
        Box::new(http_codec::stream_into_codec(Box::new(stream), Protocol::Http2)),
        "endpoint.test".to_string(),
    );
    let mut tunnel = Tunnel::new(context, Box::new(downstream), Box::new(MockForwarder(Outcome::ReportsTimeout)), AuthenticationPolicy::Default, log_utils::IdChain::empty());
    let listener = tokio::spawn(async move {
        let _ = tunnel.listen().await;
    });
    let mut responses = Vec::new();
    if let Ok(Some(r)) = tokio::time::timeout(Duration::from_secs(5), rx.recv()).await {
        responses.push(r);
        while let Ok(Some(r)) = tokio::time::timeout(Duration::from_millis(300), rx.recv()).await {
            responses.push(r);
        }
    }
    listener.abort();
    responses
}

fn assert_407(responses: &[ResponseHeaders]) {
    assert_eq!(responses.len(), 1, "exactly one final response expected, got {:?}", responses);
    assert_eq!(responses[0].status, http::StatusCode::PROXY_AUTHENTICATION_REQUIRED, "got {:?}", responses[0]);
    assert!(responses[0].headers.get("proxy-authenticate").map(|v| v.as_bytes().starts_with(b"Basic ")).unwrap_or(false));
}

#[tokio::test]
async fn c01_missing_and_wrong_credentials_are_answered_407() {
    assert_407(&run_connect_with_auth(None).await);
    assert_407(&run_connect_with_auth(Some("Basic d3Jvbmc6d3Jvbmc=")).await);
}

#[tokio::test]
async fn c01_valid_credentials_reach_the_forwarder() {
    // alice:secret -> the mock connector reports a time-out -> 502/302, i.e. the request was authorised
    let r = run_connect_with_auth(Some("Basic YWxpY2U6c2VjcmV0")).await;
    assert_eq!(r.len(), 1);
    assert_eq!(r[0].status, http::StatusCode::BAD_GATEWAY);
}

#[tokio::test]
async fn c01_other_scheme_or_malformed_header_is_answered_407() {
    assert_407(&run_connect_with_auth(Some("Bearer abcdef")).await);
    assert_407(&run_connect_with_auth(Some("Basic")).await);
}

#[test]
fn c20_auth_info_error_does_not_carry_the_header_value() {
    let headers = http::Request::builder().method(http::Method::CONNECT).uri("example.org:443")
        .header("proxy-authorization", "Bearer CANARY-c2VjcmV0").body(()).unwrap().into_parts().0;
    let req = MockRequest { headers };
    let err = PendingRequest::auth_info(&req).err().expect("a non-Basic scheme must be refused");
    assert!(!err.to_string().contains("CANARY"), "the error text (which tunnel.rs logs) contains the header value: {}", err);
}
