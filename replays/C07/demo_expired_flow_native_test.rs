//! Demonstration for property C07: a flow that expired by idle timeout must have its forwarder socket released, so
//! that a later datagram on the same (source, destination) pair simply starts a fresh flow.
use crate::datagram_pipe::{self, DuplexPipe as _};
use crate::{core, downstream, forwarder, log_utils, udp_forwarder};
use async_trait::async_trait;
use bytes::Bytes;
use std::io;
use std::net::SocketAddr;
use std::sync::Arc;
use std::time::Duration;

/// client side: one datagram, a pause longer than the UDP timeout, a second datagram on the same pair, then silence
struct Script(usize);
struct Null;

fn datagram() -> downstream::UdpDatagram {
    downstream::UdpDatagram {
        meta: downstream::UdpDatagramMeta {
            source: "10.8.0.2:40000".parse::<SocketAddr>().unwrap(),
            destination: "127.0.0.1:9".parse::<SocketAddr>().unwrap(),
            app_name: None,
        },
        payload: Bytes::from_static(b"x"),
    }
}

#[async_trait]
impl datagram_pipe::Source for Script {
    type Output = downstream::UdpDatagram;
    fn id(&self) -> log_utils::IdChain<u64> {
        log_utils::IdChain::empty()
    }
    async fn read(&mut self) -> io::Result<downstream::UdpDatagram> {
        self.0 += 1;
        match self.0 {
            1 => Ok(datagram()),
            _ => futures::future::pending().await,
        }
    }
}

#[async_trait]
impl datagram_pipe::Sink for Null {
    type Input = forwarder::UdpDatagram;
    async fn write(&mut self, _: forwarder::UdpDatagram) -> io::Result<datagram_pipe::SendStatus> {
        Ok(datagram_pipe::SendStatus::Sent)
    }
}

#[tokio::test]
async fn c07_expired_flow_releases_its_socket() {
    let context = Arc::new(core::Context::default());
    let metrics = context.metrics.clone();
    let (shared, source, sink) = udp_forwarder::make_multiplexer(context, log_utils::IdChain::empty()).unwrap();
    let mut pipe = crate::udp_pipe::DuplexPipe::new(
        (Box::new(Script(0)), Box::new(Null)),
        (shared, source, sink),
        |_, _| (),
        Duration::from_millis(100),
    );
    assert_eq!(metrics.outbound_udp_sockets.get(), 0);
    // one datagram opens the flow; afterwards nothing happens for 7 x the UDP timeout
    let _ = tokio::time::timeout(Duration::from_millis(700), pipe.exchange()).await;
    assert_eq!(metrics.outbound_udp_sockets.get(), 0, "the socket of a flow that expired by idle timeout is still open");
}
